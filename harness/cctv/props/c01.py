"""C01 — threshold soundness: no acceptance without enough valid authorized signers."""
from __future__ import annotations

import copy

from .. import envgen, gen, proto
from ..framework import Case, Check

RULE = ("envelopes over a pool of 1-5 keys, each key's entry drawn from 22 states (absent, raw/OpenPGP valid, valid over another "
        "payload, mis-filed, bit-flipped, truncated, upper-case, extra field, non-dict, alternative key spellings, ...) x "
        "authorized subsets x junk entries x both modes, each tried at thresholds c and c+1 where c is the oracle's count of "
        "valid authorized signers; non-trivial = the envelope passes the argument checks and has at least one entry; "
        "distinct by (envelope, authorized list, threshold, mode)")

THEOREMS = ["entryClass_counts_iff", "verifySignable_sound", "thresholdMet_iff_counting", "counted_keys_distinct_bytes", "threshold_needs_enough_authorized"]


def signable_batch(ck: Check, n: int, want_modes=(False, True)):
    """returns list of (Case, expected outcome per the independent oracle, info)"""
    rng = ck.rng
    out = []
    g = 0
    for i in range(n):
        gpg = want_modes[i % len(want_modes)]
        c = envgen.signable_case(rng, gpg, ck.dist)
        g += 1
        cnt = len(envgen.counting_keys(c["env"], c["auth"], gpg))
        ck.count("oracle-count:%d" % min(cnt, 4))
        ts = envgen.thresholds_for(rng, cnt, len(c["auth"]))
        if rng.random() < 0.08:
            ts.append(rng.choice(envgen.BAD_THRESHOLDS))
        for t in ts:
            gv = gpg if rng.random() < 0.9 else (1 if gpg else 0)
            case = Case("vsignable", [c["env"], c["auth"], t, gv], tag="gpg" if gpg else "raw", group=g,
                        meta={"states": c["states"], "count": cnt, "thr": repr(t)})
            out.append((case, envgen.expected_signable(c["env"], c["auth"], t, gpg), c))
        if cnt and rng.random() < 0.3:
            # right after it: the same signatures on a payload that Python's == cannot tell from the signed one (1 / 1.0 / True ...) but that
            # serializes differently — a related input on which nothing of the previous call may be reused
            twin_signed = envgen.retyped(c["env"]["signed"])
            if gen.oracle_bytes(twin_signed) != gen.oracle_bytes(c["env"]["signed"]):
                twin = {"env": {"signatures": c["env"]["signatures"], "signed": twin_signed}, "auth": c["auth"], "states": c["states"]}
                cnt2 = len(envgen.counting_keys(twin["env"], twin["auth"], gpg))
                case = Case("vsignable", [twin["env"], twin["auth"], 1, gpg], tag="gpg" if gpg else "raw", group=g, meta={"states": {"twin": "retyped-payload"}, "count": cnt2, "thr": "1"})
                out.append((case, envgen.expected_signable(twin["env"], twin["auth"], 1, gpg), twin))
    return out


def run(ck: Check) -> None:
    n = ck.n(2500, 450)
    batch = signable_batch(ck, n)
    res = ck.run_cases([b[0] for b in batch], "corr:verify_signable/outcome-class")
    for (case, want, c), r in zip(batch, res):
        ck.oracle_checks += 1
        if want != "E ArgError" and c["env"]["signatures"]:
            ck.nontrivial_add(r.case.group * 100 + hash(case.meta["thr"]) % 100)
        if r.impl == "OK" and want != "OK":
            ck.violation("accepted without threshold-many valid authorized signers",
                         {"request": r.case.op + " " + proto.enc(case.args[0])[:1500], "authorized": case.args[1], "threshold": case.meta["thr"],
                          "mode": case.tag, "oracle_count": case.meta["count"], "entry_states": case.meta["states"]},
                         "unsound:" + case.tag)
    # directed: signature maps holding N entries that never count (strangers' well-formed entries, junk indexes, malformed values) next to fewer valid
    # authorized signatures than the threshold asks for, N on the boundaries where "too many to report" logic would switch: never accepted
    from .. import mined
    import hashlib as _h
    crowded = []
    for N in sorted(set([19, 20, 21, 22, 33, 64, 65, 129, 257, 1025] + [x for x in mined.near_ints() if 2 <= x <= 3000])):
        for gpg in (False, True):
            ks = [gen.key(1), gen.key(2)]
            signed = {"crowded": N}
            data = gen.oracle_bytes(signed)
            env = gen.envelope(signed)
            for j in range(N):
                kind = j % 3
                if kind == 0:
                    env["signatures"][_h.sha256(b"stranger%d" % j).hexdigest()] = ({"signature": "00" * 64} if not gpg else {"other_headers": "04001608", "signature": "00" * 64})
                elif kind == 1:
                    env["signatures"]["junk-%d" % j] = "x"
                else:
                    env["signatures"][_h.sha256(b"malformed%d" % j).hexdigest()] = {"signature": "zz"}
            gen.sign_env(env, ks[:1], gpg, ck.rng)                  # one valid authorized signer ...
            case = Case("vsignable", [env, [k.hex for k in ks], 2, gpg], tag="gpg" if gpg else "raw", group=500000 + N,          # ... of the two required
                        meta={"states": {"crowded": N}, "count": 1, "thr": "2"})
            crowded.append(case)
    for r in ck.run_cases(crowded, "corr:verify_signable/outcome-class"):
        ck.oracle_checks += 1
        ck.count("crowded-map-unmet-threshold")
        if r.impl != "E SignatureError":
            ck.violation("accepted without threshold-many valid authorized signers" if r.impl == "OK" else "an unmet threshold was not reported as a signature error",
                         {"ignored_entries": r.case.meta["states"]["crowded"], "valid_authorized_signers": 1, "threshold": 2, "mode": r.case.tag, "impl": r.impl},
                         ("unsound:" if r.impl == "OK" else "class:") + r.case.tag + ":crowded")
    # directed: an authorized list that names one signer twice (two roles' lists concatenated) — [A, A, B], [A, B, A], [B, A, A] … — where A's valid signature is
    # also filed under B's key id: B's index holds a signature that is not B's, so A alone is one signer, whatever the list looks like
    rep = []
    A_, B_, C_ = gen.key(1), gen.key(2), gen.key(3)
    for gpg in (False, True):
        for auth_ in ([A_, A_, B_], [A_, B_, A_], [B_, A_, A_], [A_, A_, B_, B_], [A_, B_, C_, A_], [A_, A_, A_, B_]):
            signed = {"repeated": [k.idx for k in auth_]}
            data = gen.oracle_bytes(signed)
            env = gen.envelope(signed)
            ea = gen.gpg_entry(A_, data, gen.GPG_HDR_TYPICAL) if gpg else gen.raw_entry(A_, data)
            env["signatures"][A_.hex] = ea
            env["signatures"][B_.hex] = copy.deepcopy(ea)          # A's signature, mis-filed under B
            for thr, want in ((1, "OK"), (2, "E SignatureError")):
                rep.append((Case("vsignable", [env, [k.hex for k in auth_], thr, gpg], tag="gpg" if gpg else "raw", group=600000 + len(rep),
                                 meta={"states": {"authorized": "repeated"}, "count": 1, "thr": str(thr)}), want))
    for (c_, want), r in zip(rep, ck.run_cases([c for c, _ in rep], "corr:verify_signable/outcome-class")):
        ck.oracle_checks += 1
        ck.count("repeated-authorized-key")
        if r.impl != want:
            ck.violation("accepted without threshold-many valid authorized signers" if r.impl == "OK" else "one valid authorized signer does not meet threshold 1 when the authorized list repeats a key",
                         {"authorized_pattern": c_.args[0]["signed"]["repeated"], "threshold": c_.meta["thr"], "mode": c_.tag, "impl": r.impl, "expected": want},
                         ("unsound:" if r.impl == "OK" else "incomplete:") + c_.tag + ":repeated-authorized")
    # entry by entry: the class the model's loop body assigns to every entry of every envelope (driver op `vclass`, Model/Auth.lean `entryClass`; theorem
    # entryClass_counts_iff) against the independent oracle's per-key verdict — a finer comparison than the call's verdict, and a record of which branches
    # of the model the run exercised
    ck.correspondences.add("corr:entry-classes/model-vs-oracle")
    seen_env = set()
    lines, meta = [], []
    for (case, want, c) in batch:
        gpg = case.tag == "gpg"
        if id(c["env"]) in seen_env or not envgen.well_typed(c["env"], c["auth"], 1):
            continue
        seen_env.add(id(c["env"]))
        lines.append("vclass " + proto.enc(c["env"]) + " " + proto.enc(c["auth"]) + " " + proto.enc(gpg))
        meta.append((c, gpg, case.group))
    for ln, (c, gpg, grp), ans in zip(lines, meta, ck.driver.run(lines, [m[2] for m in meta])):
        ck.evaluations += 1
        ck.oracle_checks += 1
        classes = ans[2:].split(",") if ans.startswith("C ") and ans[2:] not in ("", "-") else []
        keys = list(c["env"]["signatures"])
        for cl in classes:
            ck.count("model-branch:" + cl)
        counted_model = {proto.label(k) for k, cl in zip(keys, classes) if cl == "counts"}
        counted_oracle = {proto.label(k) for k in envgen.counting_keys(c["env"], c["auth"], gpg)}
        if not ans.startswith("C ") or len(classes) != len(keys) or counted_model != counted_oracle or "error" in classes:
            ck.mismatch_total += 1
            kk = "entry-classes:" + ("gpg" if gpg else "raw")
            ck.mismatch_kinds[kk] = ck.mismatch_kinds.get(kk, 0) + 1
            if len(ck.mismatches) < 10:
                ck.mismatches.append({"corr": "corr:entry-classes/model-vs-oracle", "line": ln[:1500], "impl": "oracle counts " + ",".join(sorted(counted_oracle))[:300],
                                      "model": ans[:300], "tag": "gpg" if gpg else "raw", "meta": {"states": c["states"]}, "stdout_encoding": "utf-8"})
    io_lines, io_meta = [], []
    # the same envelopes when the diagnostics cannot be printed (stdout full, a broken pipe, closed, absent): whatever the library then does with the
    # failed print, it may not accept what it otherwise rejects
    from .. import impl
    for (case, want, c) in batch[:: (1 if ck.thorough else 2)]:
        if want == "OK" or not isinstance(c["env"].get("signatures"), dict) or not c["env"]["signatures"]:
            continue
        for mode in ("broken:full", "broken:closed", "broken:none", "broken:pipe"):
            out = impl.run_case(case.op, case.args, mode)
            ck.evaluations += 1
            ck.oracle_checks += 1
            ck.count("stdout-" + mode + ":" + out[:14])
            if envgen.well_typed(case.args[0], case.args[1], 1) and isinstance(case.args[3], bool):
                io_lines.append("vsignableio " + ("absent" if mode == "broken:none" else "failing") + " " + " ".join(proto.enc(a) for a in case.args))
                io_meta.append((mode, out, case))
            if out == "OK":
                ck.violation("accepted without threshold-many valid authorized signers when the diagnostics could not be printed",
                             {"request": case.op + " " + proto.enc(case.args[0])[:1500], "authorized": case.args[1], "threshold": case.meta["thr"], "mode": case.tag,
                              "stdout": mode, "oracle_count": case.meta["count"], "entry_states": case.meta["states"]}, "unsound-broken-stdout:" + case.tag)
                break
    # ... and against the model of the call under such a standard output (Model/Diagnostics.lean: verifySignableUnder; theorems sound_under_any_stdout,
    # failing_stdout_outcomes): the implementation's outcome is the model's under that state (the failed print: OSError, or ValueError for a closed file
    # object) or — a tool that reports elsewhere is as good — the call's ordinary outcome
    ck.correspondences.add("corr:verify_signable/outcome-under-stdout-states")
    normal_lines = ["vsignable " + ln.split(" ", 2)[2] for ln in io_lines]
    for (mode, out, case), m_io, m_norm, ln in zip(io_meta, ck.driver.run(io_lines, [m[2].group for m in io_meta]), ck.driver.run(normal_lines, [m[2].group for m in io_meta]), io_lines):
        ck.evaluations += 1
        allowed = {m_norm, m_io}
        if m_io == "E OSError":
            allowed |= {"E ArgError"} if mode == "broken:closed" else set()
        ck.count("model-under-stdout:" + m_io[:12])
        if out not in allowed:
            ck.mismatch_total += 1
            kk = f"verify_signable-under-{mode}:impl={out[:20]}:model={m_io[:20]}"
            ck.mismatch_kinds[kk] = ck.mismatch_kinds.get(kk, 0) + 1
            if len(ck.mismatches) < 10:
                ck.mismatches.append({"corr": "corr:verify_signable/outcome-under-stdout-states", "line": ln[:1500], "impl": out, "model": m_io + " (ordinary: " + m_norm + ")", "tag": mode, "meta": {}, "stdout_encoding": mode})
    # soundness of what is built on it: delegation and root verification accept only with the trusted rule met
    rng = ck.rng
    dcases = []
    for i in range(ck.n(300, 60)):
        gpg = bool(i % 2)
        c = envgen.signable_case(rng, gpg, ck.dist)
        role = rng.choice(["pkg_mgr", "key_mgr", "x"])
        keys = [k for k in dict.fromkeys(c["auth"])]
        cnt = len(envgen.counting_keys(c["env"], keys, gpg))
        for t in envgen.thresholds_for(rng, cnt, len(keys)):
            trusted = gen.envelope(gen.delegating_md("root", {role: {"pubkeys": keys, "threshold": t},
                                                              "other": {"pubkeys": [gen.key(15).hex], "threshold": 1}}))
            case = Case("vdeleg", [role, c["env"], trusted, gpg], tag="deleg-gpg" if gpg else "deleg-raw", group=10000 + i,
                        meta={"count": cnt, "thr": t, "states": c["states"]})
            dcases.append((case, cnt >= t))
    res = ck.run_cases([d[0] for d in dcases], "corr:verify_delegation/outcome-class")
    for (case, met), r in zip(dcases, res):
        ck.oracle_checks += 1
        if not met and r.case.group % 2 == 0:
            for mode in ("broken:full", "broken:closed"):
                if impl.run_case(case.op, case.args, mode) == "OK":
                    ck.violation("delegation accepted without the trusted role's threshold of valid authorized signers when the diagnostics could not be printed",
                                 {"role": case.args[0], "untrusted": proto.enc(case.args[1])[:1500], "stdout": mode}, "unsound-broken-stdout:" + case.tag)
        if r.impl == "OK" and not met:
            ck.violation("delegation accepted without the trusted role's threshold of valid authorized signers",
                         {"role": case.args[0], "untrusted": proto.enc(case.args[1])[:1500], "trusted": proto.enc(case.args[2])[:800], "mode": case.tag,
                          "oracle_count": case.meta["count"], "threshold": case.meta["thr"]}, "unsound:" + case.tag)
