"""C11 — repodata artifact signing is complete, faithful and client-verifiable."""
from __future__ import annotations

import copy
import json

from .. import envgen, gen, proto, schema
from ..framework import Case, Check

RULE = ("repodata documents with 0-8 artifacts per section (packages / packages.conda, section possibly missing), arbitrary JSON metadata per artifact, "
        "pre-existing and stale signatures sections, extra top-level fields, non-ASCII artifact names; signed file compared byte for byte with the model; "
        "parsed result checked entry by entry with an independent signer; second signing; client-side reconstruction verified through verify_delegation; "
        "cross-artifact substitution.  non-trivial = >= 2 artifacts; distinct by document")

THEOREMS = ["signRepo_ok", "sigSection_keys", "sigSection_entry", "signRepo_other_fields", "client_verifies", "signRepo_idempotent", "cross_artifact_or_forgery", "other_members_do_not_matter", "concurrent_jobs_independent", "two_signing_runs", "job_alone"]


def order_to_depth(v, depth: int):
    """the same JSON value with object members sorted at the outer `depth` levels and reverse-sorted below"""
    if isinstance(v, dict):
        return {k: order_to_depth(v[k], depth - 1) for k in sorted(v, reverse=depth <= 0)}
    if isinstance(v, list):
        return [order_to_depth(x, depth) for x in v]
    return v


def rand_doc(rng):
    def arts(n):
        d = {}
        for _ in range(n):
            name = rng.choice(["pkg-%d-1.0-0.tar.bz2" % rng.randrange(50), "a.conda", gen.rand_str(rng, 6) or "x", "é-%d.conda" % rng.randrange(9)])
            d[name] = rng.choice([{"name": "p", "version": "1.%d" % rng.randrange(9), "depends": ["a >=1"], "size": rng.randrange(10**6)}, gen.rand_json(rng, 3, [12]), {}, {"x": 1.5, "é": None},
                                  {"type": "root", "name": "p"}, {"type": "key_mgr", "version": 1, "delegations": {}},   # look like, but are not, delegating metadata
                                  {"build": "0", "depends": [{"name": "b", "extra": {"z": 1, "a": 2}}], "meta": {"z": {"y": 0, "b": 1}, "m": 1, "a": [1, {"q": 1, "b": 2}]}, "name": "p"}])
            if isinstance(d[name], dict) and rng.random() < 0.4:
                # members in sorted order down to some depth and in reverse order below it (files written by tools that sort only the outer levels)
                d[name] = order_to_depth(d[name] if rng.random() < 0.5 else gen.rand_json(rng, 4, [20]), rng.choice([0, 1, 1, 2]))
        return d
    doc = {"info": {"subdir": "noarch"}, "packages": arts(rng.choice([0, 1, 2, 3, 8]))}
    if rng.random() < 0.7:
        pc = arts(rng.choice([0, 1, 2, 5]))
        doc["packages.conda"] = {k + ("" if k not in doc["packages"] else "x"): v for k, v in pc.items()}
    if rng.random() < 0.5 and doc["packages"]:
        # both formats of the same build, with different metadata (size / checksums differ in real repodata)
        nm = next(iter(doc["packages"]))
        base = nm[:-len(".tar.bz2")] if nm.endswith(".tar.bz2") else nm
        doc.setdefault("packages.conda", {})[base + ".conda"] = {"name": "p", "size": rng.randrange(10**6), "sha256": "%064x" % rng.getrandbits(256)}
    if rng.random() < 0.35 and doc["packages"]:
        # two artifacts whose metadata Python's == cannot tell apart (1 / 1.0 / True, 0 / False) but whose canonical bytes differ: each gets its own signature
        nm = next(iter(doc["packages"]))
        base = {"name": "q", "build_number": 1, "noarch": True, "size": 0, "track": [1, 0]}
        doc["packages"]["twin-a-" + nm] = base
        doc.setdefault("packages.conda", {})["twin-b-" + nm] = envgen.retyped(base)
        doc["packages"]["twin-c-" + nm] = {"name": "q", "build_number": True, "noarch": 1, "size": False, "track": [1.0, 0]}
    if rng.random() < 0.5:
        doc["signatures"] = {"stale.tar.bz2": {gen.key(3).hex: {"signature": "00" * 64}}, **({next(iter(doc["packages"])): {"old": 1}} if doc["packages"] else {})}
    if rng.random() < 0.4:
        doc[rng.choice(["repodata_version", "removed", "é", "zz"])] = gen.rand_json(rng, 2, [6])
    if rng.random() < 0.35:
        # other top-level sections that *name* artifacts (withdrawn / revoked / pinned lists as real indexes carry them): every listed artifact is signed all the same
        names = list(doc["packages"]) + list(doc.get("packages.conda", {}))
        if names:
            doc[rng.choice(["removed", "removed", "removed", "revoked", "yanked", "info"])] = rng.choice([rng.sample(names, rng.randint(1, len(names))), names[:1], {n: True for n in names[:2]}, names[0]])
    if rng.random() < 0.35:
        # top-level members whose *names* resemble the two artifact sections (other package formats, backups, patched / unpatched copies as real indexes carry
        # them), holding records under the names of real artifacts with other metadata: only "packages" and "packages.conda" list artifacts to sign
        names = list(doc["packages"]) + list(doc.get("packages.conda", {})) or ["ghost-1.0-0.tar.bz2"]
        for fld in rng.sample(["packages.whl", "packages.unpatched", "packages.conda.bak", "packages_old", "Packages", "packages.", "xpackages", "packages.conda2"], 2):
            doc[fld] = {rng.choice(names): {"name": "shadow", "size": rng.randrange(99)}, "only-here-%d.whl" % rng.randrange(9): {"name": "w"}}
    items = list(doc.items())
    rng.shuffle(items)
    return dict(items)


def run(ck: Check) -> None:
    rng = ck.rng
    from .. import impl

    n = ck.n(300, 70)
    docs, keys = [], []
    for i in range(n):
        docs.append(rand_doc(rng))
        keys.append(gen.key(rng.randrange(10)))
    # two thirds of the input files are written in a random non-canonical layout
    cases = [Case("signrepofile", [d, k.seed.hex(), (rng.getrandbits(32) if i % 3 else None)], tag="signrepo", group=i) for i, (d, k) in enumerate(zip(docs, keys))]
    res = ck.run_cases(cases, "corr:sign_all_in_repodata/file-bytes")
    second = []
    for d, k, r in zip(docs, keys, res):
        if not r.impl.startswith("B "):
            ck.violation("signing a well-formed repodata document failed", {"doc": proto.enc(d)[:800], "impl": r.impl}, "signrepo-failed")
            continue
        b = bytes.fromhex(r.impl[2:])
        ck.oracle_checks += 1
        try:
            out = json.loads(b)
        except Exception as e:
            ck.violation("signed repodata file is not JSON", {"error": repr(e)}, "signrepo-notjson")
            continue
        names = list(d["packages"]) + list(d.get("packages.conda", {}))
        if len(names) >= 2:
            ck.nontrivial_add(proto.enc(d)[:300])
        if b != gen.oracle_bytes(out):
            ck.violation("signed repodata file is not in canonical form", {"doc": proto.enc(d)[:600]}, "signrepo-noncanonical")
        rest_in = {k2: v for k2, v in d.items() if k2 != "signatures"}
        rest_out = {k2: v for k2, v in out.items() if k2 != "signatures"}
        if not proto.deep_equal(rest_in, rest_out):
            ck.violation("signing changed something other than the signatures section", {"before": proto.enc(rest_in)[:600], "after": proto.enc(rest_out)[:600]}, "signrepo-other-fields")
        sigs = out.get("signatures")
        metas = {**d["packages"], **d.get("packages.conda", {})}
        want = {nm: {k.hex: gen.raw_entry(k, gen.oracle_bytes(md))} for nm, md in metas.items()}
        if not proto.deep_equal(sigs, want):
            ck.violation("signatures section is not exactly one valid entry per artifact under the signer's key (stale entries gone)",
                         {"artifacts": [proto.enc(x) for x in names][:10], "signatures_keys": [proto.enc(x) for x in (sigs or {})][:12]}, "signrepo-entries")
            continue
        # signing the signed file again — as written, or re-laid-out by another tool in between — gives the same canonical file
        second.append((Case("signrepofile", [out, k.seed.hex(), (rng.getrandbits(32) if rng.random() < 0.6 else None)], tag="signrepo-again"), b))
        # client side: wrap the artifact's metadata, attach the entry, verify via a pkg_mgr delegation
        trusted = gen.envelope(gen.delegating_md("key_mgr", {"pkg_mgr": gen.delegation([k], 1)}))
        ccases, expect = [], []
        for nm, md in list(metas.items())[:4]:
            env = {"signatures": sigs[nm], "signed": md}
            ok = "OK" if not (schema.o_signed_part(md) and md["type"] != "pkg_mgr") else "E MetadataVerificationError"
            ccases.append(Case("vdeleg", ["pkg_mgr", env, trusted, False], tag="client-verify"))
            expect.append(ok)
            other = [m2 for n2, m2 in metas.items() if not proto.deep_equal(m2, md)]
            if other:
                ccases.append(Case("vdeleg", ["pkg_mgr", {"signatures": sigs[nm], "signed": other[0]}, trusted, False], tag="cross-artifact"))
                expect.append("E SignatureError" if not (schema.o_signed_part(other[0]) and other[0]["type"] != "pkg_mgr") else "E MetadataVerificationError")
        for c, w, r2 in zip(ccases, expect, ck.run_cases(ccases, "corr:verify_delegation/outcome-class")):
            ck.oracle_checks += 1
            if r2.impl != w:
                ck.violation("client-side verification of an artifact signature gives the wrong verdict" if c.tag == "client-verify" else "a signature verified against another artifact's different metadata",
                             {"case": c.tag, "impl": r2.impl, "expected": w, "envelope": proto.enc(c.args[1])[:800]}, f"client:{c.tag}:{r2.impl}")
    res2 = ck.run_cases([c for c, _ in second], "corr:sign_all_in_repodata/file-bytes")
    for (c, b), r in zip(second, res2):
        ck.oracle_checks += 1
        if r.impl != "B " + b.hex():
            ck.violation("signing an already signed repodata file again (possibly re-laid-out in between) does not give the same canonical file", {"doc": proto.enc(c.args[0])[:600]}, "signrepo-idempotent")
    # large sections: artifact counts at which batching / paging / progress logic rolls over (gen.counts_of_interest, incl. the constants of the current source)
    # — every listed artifact gets its entry.  Implementation vs independent signer (the model's statement, sigSection_keys, is for every count).
    import os
    d_ = impl.scratch_dir()
    sk = gen.key(2)
    def check_signed_file(fn, original, label):
        try:
            with impl.quiet_stdout():
                impl.signing.sign_all_in_repodata(fn, sk.seed.hex())
            b = open(fn, "rb").read()
            out = json.loads(b)
        except Exception as e:  # noqa: BLE001
            ck.violation("signing a well-formed repodata document failed", {"document": label, "error": repr(e)[:300]}, "signrepo-failed:" + label.split(":")[0])
            return
        ck.evaluations += 1
        ck.oracle_checks += 1
        metas = {**original["packages"], **original.get("packages.conda", {})}
        sigs = out.get("signatures") or {}
        missing = [nm for nm in metas if nm not in sigs]
        wrong = [nm for nm in metas if nm in sigs and sigs[nm] != {sk.hex: gen.raw_entry(sk, gen.oracle_bytes(metas[nm]))}]
        extra = [nm for nm in sigs if nm not in metas]
        rest_out = {k2: v for k2, v in out.items() if k2 != "signatures"}
        rest_in = {k2: v for k2, v in original.items() if k2 != "signatures"}
        if missing or wrong or extra:
            ck.violation("signatures section is not exactly one valid entry per artifact under the signer's key, each over that artifact's own metadata",
                         {"document": label, "artifacts": len(metas), "missing": missing[:5], "wrong": wrong[:5], "unlisted": extra[:5]}, "signrepo-entries:" + label.split(":")[0])
        elif not proto.deep_equal(rest_in, rest_out):
            ck.violation("signing changed something other than the signatures section", {"document": label}, "signrepo-other-fields:" + label.split(":")[0])
        elif b != gen.oracle_bytes(out):
            ck.violation("signed repodata file is not in canonical form", {"document": label}, "signrepo-noncanonical:" + label.split(":")[0])
    for cnt in gen.counts_of_interest():
        for section in ("packages", "packages.conda"):
            if cnt > 2100 and section == "packages.conda" and not ck.thorough:
                continue
            doc = {"info": {}, "packages": {}, "packages.conda": {}}
            doc[section] = {"a%05d%s" % (j, ".conda" if section.endswith("conda") else ".tar.bz2"): {"name": "a", "build_number": j} for j in range(cnt)}
            doc["packages" if section != "packages" else "packages.conda"] = {"other-1.0-0.x": {"name": "other"}}
            fn = os.path.join(d_, "large.json")
            with open(fn, "w", encoding="ascii") as f:
                json.dump(doc, f)
            ck.count("large-section:%s" % section)
            check_signed_file(fn, doc, "large:%s:%d" % (section, cnt))
    # files as other tools store them: raw UTF-8 with multi-byte characters lying across every block boundary a piecewise reader could use
    span = min(2_500_000, max([200_000] + [3 * n_ for n_ in gen.sizes_of_interest()]))
    for pad in (0, 1, 2):
        raw, doc = gen.raw_utf8_repodata(pad, span)
        fn = os.path.join(d_, "rawutf8.json")
        with open(fn, "wb") as f:
            f.write(raw)
        ck.count("raw-utf8-file")
        check_signed_file(fn, doc, "raw-utf8:pad%d:%d-bytes" % (pad, len(raw)))
    # two channels' indexes of the same file name (linux-64/repodata.json, noarch/repodata.json) signed at the same time by two threads, under sampled
    # non-nested schedules (sched.staggered): each file ends as the file signing it alone gives — nothing the two runs use is shared between them
    from .. import sched
    repo_pkg = os.path.join(os.path.realpath(os.environ.get("CCT_REPO", "/repo")), "conda_content_trust") + os.sep
    dx, dy = os.path.join(d_, "linux-64"), os.path.join(d_, "noarch")
    os.makedirs(dx, exist_ok=True); os.makedirs(dy, exist_ok=True)
    fx, fy = os.path.join(dx, "repodata.json"), os.path.join(dy, "repodata.json")
    docx = {"info": {"subdir": "linux-64"}, "packages": {"a-1.0-0.tar.bz2": {"name": "a", "subdir": "linux-64"}}, "packages.conda": {"b.conda": {"name": "b"}}}
    docy = {"info": {"subdir": "noarch"}, "packages": {"n-2.0-0.tar.bz2": {"name": "n", "subdir": "noarch"}, "m.tar.bz2": {"name": "m"}}}
    kx, ky = gen.key(4), gen.key(5)
    def put2():
        open(fx, "wb").write(gen.oracle_bytes(docx)); open(fy, "wb").write(gen.oracle_bytes(docy))
    put2()
    with impl.quiet_stdout():
        _, nx = sched.count_events(lambda: impl.signing.sign_all_in_repodata(fx, kx.seed.hex()), repo_pkg)
        _, ny = sched.count_events(lambda: impl.signing.sign_all_in_repodata(fy, ky.seed.hex()), repo_pkg)
    wantx, wanty = open(fx, "rb").read(), open(fy, "rb").read()
    nsched = 0
    with impl.quiet_stdout():
        for k1 in sorted({max(1, int(nx * f)) for f in (0.3, 0.6, 0.8, 0.9, 0.95, 0.98, 1.0)}):
            for k2 in sorted({max(1, int(ny * f)) for f in (0.5, 0.8, 0.9, 0.95, 0.98, 1.0)}):
                put2()
                ra, rb, _, _ = sched.staggered(lambda: impl.signing.sign_all_in_repodata(fx, kx.seed.hex()), lambda: impl.signing.sign_all_in_repodata(fy, ky.seed.hex()), k1, k2, repo_pkg)
                nsched += 1
                ck.evaluations += 1
                ck.oracle_checks += 1
                gx, gy = open(fx, "rb").read() if os.path.exists(fx) else b"<missing>", open(fy, "rb").read() if os.path.exists(fy) else b"<missing>"
                if ra is not None or rb is not None or gx != wantx or gy != wanty:
                    ck.violation("two repodata files of the same name in different directories, signed concurrently: a run failed or a file does not hold its own signed document",
                                 {"first_run": str(ra)[:150], "second_run": str(rb)[:150], "first_file_is_its_own_result": gx == wantx, "second_file_is_its_own_result": gy == wanty,
                                  "first_file_holds_the_other_document": gx == wanty, "first_stopped_after_steps": k1, "second_stopped_after_steps": k2}, "signrepo-concurrent-same-name")
                    break
            else:
                continue
            break
    ck.count("concurrent-signing-schedules", nsched)
    # a run that fails part-way (an error raised while some artifact is being signed), then the index is edited (a record hot-fixed), then it is signed: the
    # result is what signing that content gives — nothing a failed run may have left behind (progress files, caches) finds its way into it
    from .. import faults
    pkgdir = os.path.dirname(impl.common.__file__)
    fnp = os.path.join(d_, "progress", "repodata.json")
    os.makedirs(os.path.dirname(fnp), exist_ok=True)
    for trial in range(3):
        doc1 = {"info": {}, "packages": {"a%d.tar.bz2" % j: {"name": "a", "build_number": j, "trial": trial} for j in range(6)}, "packages.conda": {"c.conda": {"name": "c"}}}
        with open(fnp, "wb") as f:
            f.write(gen.oracle_bytes(doc1))
        with impl.quiet_stdout():
            _, nev, _ = faults.run_traced(lambda: impl.signing.sign_all_in_repodata(fnp, sk.seed.hex()), fnp, pkgdir)
        with open(fnp, "wb") as f:
            f.write(gen.oracle_bytes(doc1))
        cls = [faults.InjectedFault, faults.InjectedInterrupt, faults.InjectedMemory][trial % 3]
        with impl.quiet_stdout():
            exc, _, _ = faults.run_traced(lambda: impl.signing.sign_all_in_repodata(fnp, sk.seed.hex()), fnp, pkgdir, fault_at=int(nev * (0.55 + 0.1 * trial)), fault_cls=cls)
        doc2 = json.loads(json.dumps(doc1))
        doc2["packages"]["a1.tar.bz2"]["build_number"] = 99          # hot fix of one record
        doc2["packages"]["a4.tar.bz2"] = {"name": "replaced"}
        del doc2["packages"]["a5.tar.bz2"]
        with open(fnp, "wb") as f:
            f.write(gen.oracle_bytes(doc2))
        ck.count("sign-after-failed-run:" + (type(exc).__name__ if exc else "no-fault"))
        check_signed_file(fnp, doc2, "after-failed-run:%d" % trial)
        left = sorted(x for x in os.listdir(os.path.dirname(fnp)) if x != "repodata.json")
        for x in left:
            os.unlink(os.path.join(os.path.dirname(fnp), x))
    # malformed documents / keys: same outcome class as the model, and an argument error where the structure is not a repodata document
    bad = [Case("signrepofile", [x, gen.key(1).seed.hex()], tag="bad-doc") for x in [{}, {"signatures": {}}, [], ["packages"], "packages", 5, None, {"packages.conda": {}}]]
    bad += [Case("signrepofile", [{"packages": {}}, x], tag="bad-key") for x in ["", "ab", "AB" * 32, "ab" * 31, " " + "ab" * 32, None, 5, gen.key(1).seed]]
    for r in ck.run_cases(bad, "corr:sign_all_in_repodata/outcome-class"):
        ck.oracle_checks += 1
        if r.impl != "E ArgError":
            ck.violation("malformed repodata / key was not rejected with an argument error", {"args": [proto.enc(a)[:200] for a in r.case.args], "impl": r.impl}, f"signrepo-bad:{r.case.tag}:{r.impl}")
