"""C02 — threshold completeness: enough valid authorized signers always suffice."""
from __future__ import annotations

import copy
import json
import os
import subprocess
import sys

from .. import envgen, gen, proto
from ..framework import Case, Check
from .c01 import signable_batch

RULE = ("same envelope generator as C01 (22 entry states x authorized subsets x junk entries incl. non-ASCII text and lone "
        "surrogates x entry orders x both modes, thresholds c and c+1), run under utf-8 and ascii standard output; envelopes "
        "produced by the library's own signing functions for 1-4 signers; the shipped fixtures; a fresh-process run with no "
        "other module imported.  non-trivial = oracle says the threshold is met by >= 1 signer; distinct by (envelope, threshold, mode, encoding)")

THEOREMS = ["verifySignable_complete", "junk_never_hurts", "junk_never_helps", "verifySignable_iff"]


def run(ck: Check) -> None:
    rng = ck.rng
    n = ck.n(2000, 400)
    batch = signable_batch(ck, n)
    cases = []
    for case, want, c in batch:
        # "broken:none" = a process without a standard output object (sys.stdout is None: daemons, pythonw, fd 1 closed at start-up); print() is a no-op there
        case.enc = rng.choice(["ascii", "ascii", "utf-8", "utf-8", "utf-8", "utf-8+Werror", "ascii+Werror", "broken:none"])
        cases.append(case)
    res = ck.run_cases(cases, "corr:verify_signable/outcome-class")
    for (case, want, c), r in zip(batch, res):
        ck.oracle_checks += 1
        if want == "OK":
            ck.nontrivial_add((r.case.group, case.meta["thr"], case.enc))
            if r.impl != "OK":
                junk = [k for k in c["env"]["signatures"] if k not in c["states"]]
                ck.violation("rejected although threshold-many valid authorized signatures are present",
                             {"request": "vsignable " + proto.enc(case.args[0])[:1500], "authorized": case.args[1], "threshold": case.meta["thr"], "mode": case.tag,
                              "stdout_encoding": case.enc, "impl": r.impl, "oracle_count": case.meta["count"], "entry_states": case.meta["states"],
                              "other_entry_keys": [proto.label(k) for k in junk]},
                             f"incomplete:{case.tag}:{r.impl}")

    # everything produced by the library's own signing functions verifies
    from .. import impl
    own = []
    for i in range(ck.n(300, 80)):
        signed = envgen.payload(rng)
        ks = [gen.key(j) for j in rng.sample(range(10), rng.randint(1, 4))]
        try:
            env = impl.signing.wrap_as_signable(signed)
            for k in ks:
                impl.signing.sign_signable(env, impl.common.PrivateKey.from_bytes(k.seed))
        except Exception as e:
            ck.violation("library signing failed", {"payload": proto.enc(signed)[:500], "error": repr(e)}, "own-sign-failed")
            continue
        auth = [k.hex for k in ks] + [gen.key(12).hex]
        rng.shuffle(auth)
        if i % 3 == 0:
            # the payload is edited and signed again by the same keys (a new version of the same document): the fresh signatures must verify
            try:
                env["signed"] = {"edited": i, "was": env["signed"]}
                for k in ks:
                    impl.signing.sign_signable(env, impl.common.PrivateKey.from_bytes(k.seed))
            except Exception as e:
                ck.violation("library signing failed", {"error": repr(e)}, "own-sign-failed")
                continue
        if i % 2:
            # the same envelope examined in the other mode first (where its raw entries are not signatures at all): what that call made of the entries is its own affair
            own.append(Case("vsignable", [env, auth, 1, True], tag="own-signed-other-mode-first", group=20000 + i, meta={"signers": len(ks), "thr": 1}))
        for t in {1, len(ks)}:
            own.append(Case("vsignable", [env, auth, t, False], tag="own-signed" + ("-after-edit" if i % 3 == 0 else ""), group=20000 + i, meta={"signers": len(ks), "thr": t}))
    res = ck.run_cases(own, "corr:verify_signable/outcome-class")
    for r in res:
        ck.oracle_checks += 1
        ck.nontrivial_add(("own", r.case.group, r.case.meta["thr"]))
        if r.case.tag == "own-signed-other-mode-first":
            if r.impl != "E SignatureError":
                ck.violation("raw signatures counted in OpenPGP mode", {"impl": r.impl}, "own-signed-gpg-mode:" + r.impl)
            continue
        if r.impl != "OK":
            ck.violation("an envelope signed by the library's own sign_signable does not verify under the signers' keys",
                         {"request": "vsignable " + proto.enc(r.case.args[0])[:1200], "threshold": r.case.meta["thr"], "impl": r.impl}, "own-signed:" + r.impl)

    # shipped fixtures verify (OpenPGP mode root chain, raw-mode key_mgr under each root)
    repo = os.environ.get("CCT_REPO", "/repo")
    def load(fn):
        return json.load(open(os.path.join(repo, "tests", "testdata", fn), "rb"))
    fx = []
    try:
        r1, r2, r3, km = load("1.root.json"), load("2.root.json"), load("3.root.json"), load("key_mgr.json")
        fx = [Case("vroot", [r1, r2], tag="fixture-1-2", group=30001), Case("vroot", [r2, r3], tag="fixture-2-3", group=30002),
              Case("vdeleg", ["key_mgr", km, r1, False], tag="fixture-km-1", group=30003),
              Case("vdeleg", ["key_mgr", km, r2, False], tag="fixture-km-2", group=30004),
              Case("vdeleg", ["key_mgr", km, r3, False], tag="fixture-km-3", group=30005)]
    except Exception as e:
        ck.notes.append("fixtures not loadable: " + repr(e))
    res = ck.run_cases(fx, "corr:fixtures/outcome-class")
    for r in res:
        ck.oracle_checks += 1
        if r.model == "OK":
            ck.nontrivial_add(r.case.tag)
        if r.model == "OK" and r.impl != "OK":
            ck.violation("a signed fixture shipped with earlier releases no longer verifies", {"fixture": r.case.tag, "impl": r.impl}, f"fixture:{r.impl}")

    # independence of what else the process imported: the same verification in a fresh interpreter
    env = dict(os.environ)
    env["PYTHONPATH"] = os.path.dirname(os.path.dirname(os.path.dirname(os.path.abspath(__file__))))
    for pre in ["", "json,decimal,locale", "rewrap-stdout"]:
        p = subprocess.run([sys.executable, "-m", "cctv.subproc", "fixtures", pre], env=env, stdout=subprocess.PIPE, stderr=subprocess.PIPE, text=True)
        ck.evaluations += 1
        ck.oracle_checks += 1
        out = p.stdout.strip().split("\n")[-1] if p.stdout.strip() else "no-output " + p.stderr[-200:]      # (the verdict line is printed last)
        ck.count("fresh-process:" + out[:40])
        if out != "OK OK":
            ck.violation("verification of a valid envelope fails in a fresh process (depends on what else was imported)",
                         {"preimports": pre, "outcomes": out}, "fresh-process:" + out)
    # the GPG file path, directed (shared with C08): the fresh entry counts whatever the signer's earlier entry looked like; never a signature beside a payload it was not made over
    from .. import gpgdirected, impl as _impl
    gpgdirected.run(ck, _impl, _impl.scratch_dir())
