"""C04 — root chain integrity over arbitrary histories of offered updates."""
from __future__ import annotations

import copy
import os

from .. import gen, proto, schema
from ..framework import Case, Check

RULE = ("histories of 4-12 (quick) / up to 60 (thorough) offers against an evolving trusted root: honest updates (key rotations, threshold "
        "changes), replays of accepted roots, rollbacks, version skips, offers signed by revoked keys, by too few keys, by self-appointed new "
        "keys only, raw-signature offers, junk; with and without writing the trusted root to a file and reloading it between steps; every "
        "verdict re-evaluated afterwards in shuffled order.  non-trivial = a history with >= 2 accepted and >= 2 rejected offers; distinct by history")

THEOREMS = ["chain_integrity", "powerless_without_threshold", "replay_rejected", "rollback_rejected", "skip_rejected", "verdict_history_free",
            "version_monotone", "same_state_same_future"]


def signed_root(rng, keys, thr, version, signers, gpg=True):
    u = gen.envelope(gen.root_md(keys, thr, [gen.key(9)], 1, version=version))
    return gen.sign_env(u, signers, gpg, rng)


def history(rng, n):
    """returns (init, offers, labels); the generator tracks the honest state with the oracle spec"""
    pool = list(range(8))
    keys = [gen.key(i) for i in rng.sample(pool, rng.randint(1, 3))]
    thr = rng.randint(1, len(keys))
    init = gen.envelope(gen.root_md(keys, thr, [gen.key(9)], 1, version=rng.choice([1, 1, 3, 7, 2**53 - 1, 2**70])))
    cur = init
    accepted = [init]
    past_keysets = []
    offers, labels = [], []
    for _ in range(n):
        cs = cur["signed"]
        ckeys = [k for k in (gen.key(i) for i in range(10)) if k.hex in cs["delegations"]["root"]["pubkeys"]]
        cthr = cs["delegations"]["root"]["threshold"]
        v = cs["version"]
        # (the first offers of every history are fixed: an honest update, then a forgery carrying the signature entries of what was just accepted, then a retyped twin)
        forced = {0: "honest", 1: "stolen-signatures", 2: "retyped-twin", 3: "replay"}.get(len(offers))
        kind = forced or rng.choice(["honest", "honest", "honest", "rotate", "rotate", "replay", "rollback", "skip", "revoked", "insufficient", "retyped-twin",
                           "self-appointed", "raw-sigs", "same-version", "junk", "honest-extra-junk", "superset-self-appointed", "superset-self-appointed", "odd-version", "stolen-signatures"])
        if kind in ("honest", "honest-extra-junk"):
            o = signed_root(rng, ckeys, rng.randint(1, len(ckeys)), v + 1, rng.sample(ckeys, cthr))
            if kind == "honest-extra-junk":
                o["signatures"][gen.key(8).hex] = gen.raw_entry(gen.key(8), b"x")
        elif kind == "rotate":
            nk = [gen.key(i) for i in rng.sample(pool, rng.randint(1, 3))]
            nthr = rng.randint(1, len(nk))
            signers = list({k.hex: k for k in rng.sample(ckeys, cthr) + rng.sample(nk, nthr)}.values())
            o = signed_root(rng, nk, nthr, v + 1, signers)
        elif kind == "replay":
            o = copy.deepcopy(rng.choice(accepted))
        elif kind == "rollback":
            o = signed_root(rng, ckeys, cthr, max(1, v - rng.randint(1, 2)), ckeys)
        elif kind == "skip":
            o = signed_root(rng, ckeys, cthr, v + rng.randint(2, 3), ckeys)
        elif kind == "revoked":
            old = rng.choice(past_keysets) if past_keysets else [gen.key(8)]
            o = signed_root(rng, old, 1, v + 1, old)
        elif kind == "insufficient":
            o = signed_root(rng, ckeys, cthr, v + 1, rng.sample(ckeys, max(0, cthr - 1)))
        elif kind == "self-appointed":
            nk = [gen.key(i) for i in (8, 9)]
            o = signed_root(rng, nk, 1, v + 1, nk)
        elif kind == "superset-self-appointed":
            # keeps every current key, adds new ones, signed by enough keys overall but by too few of the *current* ones
            fresh = [gen.key(i) for i in (8, 9)]
            nk = ckeys + [k for k in fresh if k not in ckeys]
            signers = rng.sample(ckeys, max(0, cthr - 1)) + fresh
            o = signed_root(rng, nk, max(1, min(cthr, len(signers))), v + 1, signers)
        elif kind == "raw-sigs":
            o = signed_root(rng, ckeys, cthr, v + 1, ckeys, gpg=False)
        elif kind == "stolen-signatures":
            # the signature entries of an update the client accepted earlier, attached to a different payload (self-appointed keys, next version)
            donor = rng.choice(accepted)
            nk = [gen.key(i) for i in (8, 9)]
            o = gen.envelope(gen.root_md(nk, 1, [gen.key(9)], 1, version=v + 1))
            o["signatures"] = copy.deepcopy(donor["signatures"]) if isinstance(donor.get("signatures"), dict) else {}
            gen.sign_env(o, nk, True, rng)
        elif kind == "odd-version":
            # versions that are not integers, or floats at the edge of exactness (2**53 + 1 == 2**53 as a float): properly signed, never acceptable
            o = signed_root(rng, ckeys, cthr, rng.choice([float(v + 1), float(2**53), v + 1.5, str(v + 1), True, None, float("inf")]), ckeys)
        elif kind == "retyped-twin":
            # the honest successor in every respect (same type, times, delegations) except that its version is spelled as a float / bool / string — freshly and
            # properly signed over its own bytes.  Offered right after the honest one was *checked* (accepted or not): nothing remembered from that check applies
            honest = signed_root(rng, ckeys, cthr, v + 1, ckeys)
            offers.append(honest)
            labels.append("honest")
            if schema.spec_verify_root(cur, honest) == {"OK"}:
                past_keysets.append(ckeys)
                cur = honest
                accepted.append(honest)
                v = v + 1
            twin_signed = copy.deepcopy(cur["signed"])
            twin_signed["version"] = rng.choice([float(v + 1) if v < 2**52 else str(v + 1), float(v + 1) if v < 2**52 else None, str(v + 1), (v + 1) + 0.5])
            if twin_signed["version"] is None:
                del twin_signed["version"]
            o = gen.sign_env(gen.envelope(twin_signed), ckeys, True, rng)
        elif kind == "same-version":
            o = signed_root(rng, ckeys, cthr, v, ckeys)
        else:
            o = rng.choice([{"signatures": {}, "signed": {"type": "root"}}, gen.envelope(gen.delegating_md("key_mgr", {}, version=v + 1)), [], None, "root"])
        offers.append(o)
        labels.append(kind)
        ok = isinstance(o, dict) and schema.spec_verify_root(cur, o) == {"OK"}
        if ok:
            past_keysets.append(ckeys)
            cur = o
            accepted.append(o)
    return init, offers, labels


def equal_size_history(rng):
    """successive roots whose files have exactly the same length (same number of keys and signers, same-width version numbers, the same OpenPGP
    header), processed within one second and persisted between steps: what a load cache validated by size and time stamp cannot tell apart"""
    a = [gen.key(i) for i in rng.sample(range(4), 2)]
    b = [gen.key(i) for i in rng.sample(range(4, 8), 2)]
    thr = rng.choice([1, 2])
    v = rng.randint(1, 4)
    init = gen.sign_env(gen.envelope(gen.root_md(a, thr, [gen.key(9)], 1, version=v)), a[:thr], True)
    mk = lambda keys, ver, signers: gen.sign_env(gen.envelope(gen.root_md(keys, thr, [gen.key(9)], 1, version=ver)), signers, True)     # rng=None: the typical header
    offers = [mk(a, v + 1, a[:thr]), mk(a, v + 2, a[:thr]), mk(b, v + 3, list({k.hex: k for k in a[:thr] + b[:thr]}.values())),
              mk(a, v + 4, a[:thr]), mk(b, v + 4, b[:thr]), mk(b, v + 5, b[:thr])]
    labels = ["honest", "honest", "rotate", "revoked", "honest", "honest"]
    return init, offers, labels


def client(impl, init, offers, persist, tmp, reuse=False):
    """the caller-side loop, with the real library; optionally the trusted root lives in a file between steps; optionally (`reuse`) the client keeps one
    buffer object for the offers it receives and refills it in place — the same dict objects, other content, offer after offer"""
    cur = copy.deepcopy(init)
    verdicts, idx, states = [], 0, []
    slot = {"signatures": {}, "signed": {}}
    for i, o in enumerate(offers, 1):
        if reuse and isinstance(o, dict) and isinstance(o.get("signed"), dict) and isinstance(o.get("signatures"), dict) and set(o) == {"signatures", "signed"}:
            slot["signed"].clear(); slot["signed"].update(copy.deepcopy(o["signed"]))
            slot["signatures"].clear(); slot["signatures"].update(copy.deepcopy(o["signatures"]))
            if persist:
                impl.common.write_metadata_to_file(cur, tmp)
                cur = impl.common.load_metadata_from_file(tmp)
            states.append(copy.deepcopy(cur))
            with impl.quiet_stdout():
                try:
                    impl.authentication.verify_root(cur, slot)
                    verdicts.append("OK")
                    cur = copy.deepcopy(slot)
                    idx = i
                except Exception as e:  # noqa: BLE001
                    verdicts.append("E " + impl.classify(e))
            continue
        if persist:
            impl.common.write_metadata_to_file(cur, tmp)
            cur = impl.common.load_metadata_from_file(tmp)
        states.append(copy.deepcopy(cur))
        with impl.quiet_stdout():
            try:
                impl.authentication.verify_root(cur, copy.deepcopy(o))
                verdicts.append("OK")
                cur = copy.deepcopy(o)
                idx = i
            except Exception as e:  # noqa: BLE001
                verdicts.append("E " + impl.classify(e))
    return verdicts, idx, cur, states


def run(ck: Check) -> None:
    from .. import impl

    rng = ck.rng
    nh = ck.n(120, 30)
    tmp = os.path.join(impl.scratch_dir(), "trusted.root.json")
    ck.correspondences.add("corr:root-chain-client/verdict-sequence+final-root")
    hists = []
    for h in range(nh):
        n = rng.randint(4, 12) if not ck.thorough else rng.randint(4, 60)
        init, offers, labels = history(rng, n)
        hists.append((init, offers, labels))
    forced = set()
    for _ in range(3 if not ck.thorough else 12):
        forced.add(len(hists))
        hists.append(equal_size_history(rng))
    lines = ["chain " + proto.enc(init) + " " + " ".join(proto.enc(o) for o in offers) for init, offers, _ in hists]
    model = ck.driver.run(lines, list(range(len(lines))))
    for hidx, ((init, offers, labels), line, m) in enumerate(zip(hists, lines, model)):
        persist = hidx % 2 == 1 or hidx in forced
        verdicts, idx, cur, states = client(impl, init, offers, persist, tmp, reuse=(hidx % 3 == 2))
        ck.evaluations += len(offers)
        for lab, v in zip(labels, verdicts):
            ck.count("offer:" + lab + ":" + ("accepted" if v == "OK" else "rejected"))
        got = "L " + ";".join(verdicts) + "|" + str(idx)
        def pattern(x):
            body, _, last = x[2:].rpartition("|")
            return [v == "OK" for v in body.split(";")], last
        if got != m and pattern(got) == pattern(m):
            ck.benign += 1          # same accepted offers and same final root; only the class of some rejection differs (judged by the oracle below)
        elif got != m:
            ck.mismatch_total += 1
            ck.mismatch_kinds["chain-verdicts"] = ck.mismatch_kinds.get("chain-verdicts", 0) + 1
            if len(ck.mismatches) < 10:
                ck.mismatches.append({"corr": "corr:root-chain-client/verdict-sequence+final-root", "line": line[:3000], "impl": got, "model": m,
                                      "tag": "persist" if persist else "memory", "meta": {"labels": labels}, "stdout_encoding": "utf-8"})
        if len(ck.samples) < 4:
            ck.samples.append({"history": labels, "persisted_between_steps": persist, "implementation": got, "model": m})
        if sum(v == "OK" for v in verdicts) >= 2 and sum(v != "OK" for v in verdicts) >= 2:
            ck.nontrivial_add(hidx)
        # oracle: every verdict equals the specification's, computed on the oracle's own state
        ocur = init
        for i, (o, lab, v) in enumerate(zip(offers, labels, verdicts)):
            ck.oracle_checks += 1
            want = schema.spec_verify_root(ocur, o) if isinstance(o, dict) else {"E ArgError"}
            if v not in want:
                ck.violation("the client's trusted root changed (or failed to change) against the chaining rule" if (v == "OK") != (want == {"OK"})
                             else "wrong error class in a chain step",
                             {"history": labels[: i + 1], "step": i, "persisted": persist, "impl": v, "spec": sorted(want), "trusted": proto.enc(ocur)[:1200], "offer": proto.enc(o)[:1200]},
                             f"chain:{lab}:{v}:want={','.join(sorted(want))}")
                break
            if want == {"OK"}:
                ocur = o
        # statelessness: the same (state, offer) pairs re-evaluated in another order give the same verdicts
        order = list(range(len(offers)))
        rng.shuffle(order)
        for i in order:
            ck.oracle_checks += 1
            with impl.quiet_stdout():
                try:
                    impl.authentication.verify_root(copy.deepcopy(states[i]), copy.deepcopy(offers[i]))
                    v2 = "OK"
                except Exception as e:  # noqa: BLE001
                    v2 = "E " + impl.classify(e)
            if v2 != verdicts[i]:
                ck.violation("the verdict on an offer depends on earlier offers (same trusted root, same offer, different verdict)",
                             {"history": labels, "step": i, "in_history": verdicts[i], "standalone": v2, "trusted": proto.enc(states[i])[:1200], "offer": proto.enc(offers[i])[:1200]},
                             f"history-dependent:{labels[i]}")
                break
