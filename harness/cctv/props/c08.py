"""C08 — persisting metadata never changes its trust status."""
from __future__ import annotations

import copy
import os

from .. import envgen, gen, gpgshim, proto
from ..framework import Case, Check

RULE = ("envelopes and bare metadata (floats, non-ASCII, lone surrogates, deep nesting, big ints) taken through seeded sequences of 3-10 file operations: "
        "write, load, add a raw signature (load + sign_signable + write), add an OpenPGP signature through the library's GPG file path; after every "
        "step: file bytes vs the model's serialization and the independent serializer, loaded value vs in-memory value, earlier entries unchanged, and "
        "the verdicts of verify_signable (every threshold, both modes) before/after.  non-trivial = sequence with >= 1 added signature; distinct by (value, ops)")

THEOREMS = ["load_write", "written_canonical", "cycles_preserve_bytes", "add_signature_preserves_others", "add_signature_keeps_counting", "write_over_anything", "write_frame", "write_then_load", "signFile_frame", "member_order_irrelevant"]


def verdicts(impl, env, auth):
    out = []
    for gpg in (False, True):
        for t in range(1, len(auth) + 2):
            with impl.quiet_stdout():
                try:
                    impl.authentication.verify_signable(copy.deepcopy(env), list(auth), t, gpg)
                    out.append("OK")
                except Exception as e:  # noqa: BLE001
                    out.append(impl.classify(e))
    return out


def toks_summary(toks, j):
    """the j-th operation of a token list (for messages)"""
    ops, i = [], 0
    while i < len(toks):
        n = {"P": 3, "W": 3, "L": 2, "S": 3}.get(toks[i], 1)
        ops.append(toks[i] + " " + "".join(chr(int(c)) for c in toks[i + 1].split(",")) if i + 1 < len(toks) else toks[i])
        i += n
    return ops[j] if j < len(ops) else "?"


def shared_containers(v):
    """pairs of paths at which one and the same dict / list object sits"""
    seen, out = {}, []
    def walk(x, path):
        if isinstance(x, (dict, list)):
            if id(x) in seen:
                out.append([seen[id(x)], path])
                return
            seen[id(x)] = path
            for k, y in (x.items() if isinstance(x, dict) else enumerate(x)):
                walk(y, path + "/" + str(k))
    walk(v, "")
    return out


def run(ck: Check) -> None:
    from .. import impl

    rng = ck.rng
    d = impl.scratch_dir()
    fn = os.path.join(d, "md.json")
    ck.correspondences.add("corr:file-operations/bytes+value+verdicts")
    n = ck.n(160, 40)
    ser_cases, ser_expect = [], []
    for i in range(n):
        ks = [gen.key(j) for j in rng.sample(range(10), rng.randint(1, 4))]
        fprs = {k.hex: gpgshim.register(k) for k in ks}
        auth = [k.hex for k in ks]
        if i % 4 == 0:
            payload = gen.rand_json(rng, 5, [40])
        else:
            payload = envgen.payload(rng)
        env = gen.envelope(payload)
        if rng.random() < 0.5:
            gen.sign_env(env, rng.sample(ks, rng.randint(0, len(ks))), rng.random() < 0.5, rng)
        if i % 5 == 1:
            # key rotation draft: root metadata that lists only some of the keys that have already signed it
            payload = gen.root_md(ks[:1], 1, [gen.key(7)], 1, version=rng.randint(1, 5))
            env = gen.envelope(payload)
            gen.sign_env(env, ks, rng.random() < 0.5, rng)
        if i % 6 == 2:
            # an unsigned envelope whose payload has empty containers (the builders' default `"delegations": {}`): nothing in a loaded value is shared
            # between two places, so signing it touches the signature map only
            payload = {"type": "key_mgr", "delegations": {}, "notes": [], "more": {"inner": {}, "list": [{}, []]}, "version": 1}
            env = gen.envelope(payload)
        if i % 6 == 5:
            # a payload that has members called "signatures" / "signed" of its own, at depth, holding what an older format filed there (bare hex strings):
            # only the *top-level* envelope structure means anything; what is loaded is what was written, at every depth
            payload = {"mirror": {"signatures": {"k1": "ab" * 64, gen.key(1).hex: "cd" * 64}, "signed": {"x": 1}}, "list": [{"signatures": {"z": "ef" * 64}}], "signatures": {"inner": "01" * 64}}
            env = gen.envelope(payload)
            env["signatures"]["legacy"] = "ab" * 64
            gen.sign_env(env, ks[:1], False)
        if i % 6 == 4 and env["signatures"]:
            # entries filed under other spellings of a key id, and junk, next to the real ones (C01: they never count) — persisting keeps them exactly as filed
            k0 = next(iter(env["signatures"]))
            for alt in rng.sample([k0.upper(), " " + k0, k0 + "\n", "0x" + k0, k0[:-1], "junk", ""], 3):
                env["signatures"][alt] = rng.choice([copy.deepcopy(env["signatures"][k0]), "x", {"signature": "00" * 64}])
        ops = [rng.choice(["write", "load", "sign-raw", "sign-gpg", "write", "load", "retype-write", "samesize-write", "load-mutate-load", "withdraw-signature-write", "over-foreign-file", "relative-name"]) for _ in range(rng.randint(3, 10))]
        if i % 5 == 1:
            ops.insert(rng.randrange(len(ops) + 1), "sign-gpg")
        mem = copy.deepcopy(env)
        on_disk = False
        added = 0
        ok = True
        for step, op in enumerate(ops):
            before_entries = copy.deepcopy(mem["signatures"])
            v_before = verdicts(impl, mem, auth)
            listing_before = set(os.listdir(d))
            try:
                if op == "write" or not on_disk:
                    impl.common.write_metadata_to_file(mem, fn)
                    on_disk = True
                    b = open(fn, "rb").read()
                    ck.oracle_checks += 1
                    if b != gen.oracle_bytes(mem):
                        ck.violation("the file written is not the canonical serialization of the value", {"value": proto.enc(mem)[:800]}, "write-noncanonical")
                        ok = False
                    ser_cases.append(Case("ser", [mem], tag="file-bytes", group=i))
                    ser_expect.append(b)
                if op == "retype-write":
                    # the value changes to one Python's == cannot tell apart (1 / 1.0 / True, 0.0 / -0.0) but JSON can: the file must follow
                    def retype(v):
                        if isinstance(v, dict):
                            return {k: retype(x) for k, x in v.items()}
                        if isinstance(v, list):
                            return [retype(x) for x in v]
                        if v is True:
                            return 1
                        if v is False:
                            return 0
                        if isinstance(v, int) and abs(v) < 2**53:
                            return float(v)
                        if isinstance(v, float) and v == v and abs(v) < 2**53 and v == int(v):
                            return int(v) if repr(v) != "-0.0" else 0.0
                        return v
                    mem = {"signatures": mem["signatures"], "signed": retype(mem["signed"])}
                    env = copy.deepcopy(mem)
                    impl.common.write_metadata_to_file(mem, fn)
                    b = open(fn, "rb").read()
                    ck.oracle_checks += 1
                    if b != gen.oracle_bytes(mem):
                        ck.violation("writing a changed value (1 -> 1.0, True -> 1, ...) left the file with the old contents / a non-canonical file", {"value": proto.enc(mem)[:800]}, "retype-write-stale")
                        ok = False
                    ck.evaluations += 1
                    ck.count("fileop:" + op)
                    continue
                if op == "withdraw-signature-write":
                    # a signature is withdrawn (or the whole map emptied) and the envelope written over the file that still has it: the file holds what was written
                    mem = copy.deepcopy(mem)
                    if mem["signatures"] and rng.random() < 0.7:
                        del mem["signatures"][rng.choice(sorted(mem["signatures"]))]
                    else:
                        mem["signatures"] = {}
                    impl.common.write_metadata_to_file(mem, fn)
                    back = impl.common.load_metadata_from_file(fn)
                    ck.oracle_checks += 1
                    if open(fn, "rb").read() != gen.oracle_bytes(mem) or not proto.deep_equal(back, mem):
                        ck.violation("writing an envelope with fewer signatures over a file that had more did not store the envelope given (withdrawn signatures came back)",
                                     {"value": proto.enc(mem)[:800], "loaded": proto.enc(back)[:800]}, "withdrawn-signature-returns")
                        ok = False
                    ck.evaluations += 1
                    ck.count("fileop:" + op)
                    continue
                if op == "over-foreign-file":
                    # the path already holds a file some other tool left there (final newline, CRLF, pretty-printed, BOM, longer, shorter, empty, not
                    # JSON at all): what the library writes is the canonical form of the value written, whatever was there before
                    import json as _json
                    canon_now = gen.oracle_bytes(mem)
                    foreign = rng.choice([canon_now + b"\n", canon_now + b"\r\n", canon_now + b"\n\n", b"\xef\xbb\xbf" + canon_now, canon_now.replace(b"\n", b"\r\n"),
                                          _json.dumps(mem, ensure_ascii=True).encode() + b"\n", b"", b"\n", b" \n", b"{}\n", b"not json\n", canon_now + b" " * 100 + b"\n",
                                          canon_now[:-1] + b"\n}"])
                    with open(fn, "wb") as f:
                        f.write(foreign)
                    impl.common.write_metadata_to_file(mem, fn)
                    on_disk = True
                    ck.oracle_checks += 1
                    if open(fn, "rb").read() != canon_now:
                        ck.violation("writing over a file that another tool left at the path (final newline, CRLF, BOM, other layout ...) does not leave the canonical form of the value written",
                                     {"value": proto.enc(mem)[:600], "previous_content_tail": foreign[-12:].hex(), "previous_len": len(foreign)}, "write-over-foreign-file")
                        ok = False
                    ck.evaluations += 1
                    ck.count("fileop:" + op)
                    continue
                if op == "relative-name":
                    # a relative name means the same file to the writer and to the reader, wherever the process has moved to since the library was imported
                    sub = os.path.join(d, "elsewhere-%d" % rng.randrange(3))
                    os.makedirs(sub, exist_ok=True)
                    rel = rng.choice(["rel.json", "./rel.json", "sub/../rel.json"])
                    os.makedirs(os.path.join(sub, "sub"), exist_ok=True)
                    old_cwd = os.getcwd()
                    os.chdir(sub)
                    try:
                        for stale in ("rel.json",):
                            if os.path.exists(stale):
                                os.unlink(stale)
                        impl.common.write_metadata_to_file(mem, rel)
                        there = open(os.path.join(sub, "rel.json"), "rb").read() if os.path.exists(os.path.join(sub, "rel.json")) else None
                        back = impl.common.load_metadata_from_file(rel)
                        if isinstance(mem, dict) and isinstance(mem.get("signatures"), dict):
                            k = rng.choice(ks)
                            loaded = impl.common.load_metadata_from_file(rel)
                            impl.signing.sign_signable(loaded, impl.common.PrivateKey.from_bytes(k.seed))
                            impl.common.write_metadata_to_file(loaded, rel)
                            again = impl.common.load_metadata_from_file(rel)
                            signed_ok = k.hex in again.get("signatures", {})
                        else:
                            signed_ok = True
                    finally:
                        os.chdir(old_cwd)
                    ck.oracle_checks += 1
                    if there != gen.oracle_bytes(mem) or not proto.deep_equal(back, mem) or not signed_ok:
                        ck.violation("write then load under a relative file name (after the process changed its working directory) does not give the value back / does not reach the same file",
                                     {"value": proto.enc(mem)[:600], "name": rel, "file_found": there is not None, "signature_stored": signed_ok}, "relative-name")
                        ok = False
                    ck.evaluations += 1
                    ck.count("fileop:" + op)
                    continue
                if op == "load-mutate-load":
                    # what a load returns is the file's content, whatever an earlier caller did to the object *it* got (no sharing between loads)
                    first = impl.common.load_metadata_from_file(fn)
                    want = copy.deepcopy(first)
                    if isinstance(first.get("signatures"), dict):
                        first["signatures"][gen.key(12).hex] = gen.raw_entry(gen.key(12), gen.oracle_bytes(first.get("signed")))
                    first["signed"] = {"tampered": True}
                    second = impl.common.load_metadata_from_file(fn)
                    ck.oracle_checks += 1
                    if second is first or not proto.deep_equal(second, want) or not proto.deep_equal(second, mem):
                        ck.violation("a second load of an unchanged file reflects in-memory changes made to the result of the first load (shared / cached object)",
                                     {"value": proto.enc(want)[:800], "second_load": proto.enc(second)[:800]}, "load-shares-object")
                        ok = False
                    ck.evaluations += 1
                    ck.count("fileop:" + op)
                    continue
                if op == "samesize-write":
                    # two values Python's == cannot tell apart whose canonical files have the same size; and a same-size, same-value file that
                    # is not canonical (members in another order): after write_metadata_to_file the file is the canonical form of the value written
                    first = {"signatures": mem["signatures"], "signed": {"w": mem["signed"], "x": 1, "y": 1.0, "z": [True, 1]}}
                    second = {"signatures": mem["signatures"], "signed": {"w": mem["signed"], "x": 1.0, "y": 1, "z": [1, True]}}
                    impl.common.write_metadata_to_file(first, fn)
                    impl.common.write_metadata_to_file(second, fn)
                    ck.oracle_checks += 1
                    if open(fn, "rb").read() != gen.oracle_bytes(second):
                        ck.violation("writing a value over a same-size file holding a ==-equal but different JSON value left the old contents", {"value": proto.enc(second)[:800]}, "samesize-write-stale")
                        ok = False
                    canon = gen.oracle_bytes(second)
                    a, b2 = canon.find(b'"x": 1.0'), canon.find(b'"y": 1')
                    if 0 <= a < b2:
                        planted = canon[:a] + b'"y": 1' + canon[a + 8:b2] + b'"x": 1.0' + canon[b2 + 6:]
                        assert len(planted) == len(canon)
                        with open(fn, "wb") as f:
                            f.write(planted)
                        impl.common.write_metadata_to_file(second, fn)
                        ck.oracle_checks += 1
                        if open(fn, "rb").read() != canon:
                            ck.violation("writing over a same-size non-canonical file of the same value left it non-canonical", {"value": proto.enc(second)[:800]}, "samesize-write-noncanonical")
                            ok = False
                    mem = second
                    env = copy.deepcopy(mem)
                    ck.evaluations += 1
                    ck.count("fileop:" + op)
                    continue
                if op == "load":
                    mem2 = impl.common.load_metadata_from_file(fn)
                    ck.oracle_checks += 1
                    shared = shared_containers(mem2)
                    if shared:
                        ck.violation("a loaded value is not a tree: one mutable container object sits at two places, so changing one (adding a signature) changes the other",
                                     {"written": proto.enc(mem)[:600], "places": shared[:2]}, "load-shares-within-value")
                        ok = False
                    if not proto.deep_equal(mem2, mem):
                        ck.violation("loading a written file does not give an equal JSON value back", {"written": proto.enc(mem)[:800], "loaded": proto.enc(mem2)[:800]}, "load-differs")
                        ok = False
                    mem = mem2
                elif op == "sign-raw":
                    k = rng.choice(ks)
                    loaded = impl.common.load_metadata_from_file(fn)
                    impl.signing.sign_signable(loaded, impl.common.PrivateKey.from_bytes(k.seed))
                    impl.common.write_metadata_to_file(loaded, fn)
                    mem = impl.common.load_metadata_from_file(fn)
                    added += 1
                    changed_key = k.hex
                elif op == "sign-gpg":
                    k = rng.choice(ks)
                    impl.root_signing.sign_root_metadata_via_gpg(fn, fprs[k.hex])
                    mem = impl.common.load_metadata_from_file(fn)
                    added += 1
                    changed_key = k.hex
            except Exception as e:  # noqa: BLE001
                ck.violation("a file operation on well-formed metadata failed", {"op": op, "error": repr(e)[:300], "value": proto.enc(mem)[:600]}, f"fileop-failed:{op}:{type(e).__name__}")
                ok = False
                break
            ck.evaluations += 1
            ck.count("fileop:" + op)
            # a write / load / in-place signing touches the named file only (theorems write_frame, signFile_frame): nothing else appears next to it
            strangers = sorted(set(os.listdir(d)) - listing_before - {os.path.basename(fn)})
            ck.oracle_checks += 1
            if strangers:
                ck.violation("a file operation left another file next to the one it was asked to write (temporary / backup / partial sibling)", {"op": op, "appeared": strangers[:5]}, f"stray-file:{op}")
                ok = False
            v_after = verdicts(impl, mem, auth)
            ck.oracle_checks += 1
            if op in ("write", "load"):
                if v_after != v_before:
                    ck.violation("a write/load cycle changed a verification verdict", {"op": op, "before": v_before, "after": v_after, "value": proto.enc(mem)[:800]}, f"verdict-changed:{op}")
            else:
                # adding a signature never invalidates or alters the signatures already present
                for kk, e in before_entries.items():
                    if kk != changed_key and not proto.deep_equal(mem["signatures"].get(kk), e):
                        ck.violation("adding a signature altered another signer's entry", {"op": op, "entry_key": kk}, f"entry-altered:{op}")
                for gpg in (False, True):
                    was = set(envgen.counting_keys({"signatures": before_entries, "signed": mem["signed"]}, auth, gpg)) - {changed_key}
                    now = set(envgen.counting_keys(mem, auth, gpg))
                    if not was <= now or (now - {changed_key}) != was:
                        ck.violation("adding a signature changed which other signers' signatures count", {"op": op, "mode_gpg": gpg, "before": sorted(was), "after": sorted(now)}, f"others-changed:{op}")
                    if gpg == (op == "sign-gpg") and changed_key not in now:
                        ck.violation("a signature just added through the library does not count for its signer", {"op": op, "signer": changed_key}, f"new-signature-invalid:{op}")
                ck.oracle_checks += 1
                if not proto.deep_equal(mem["signed"], env["signed"]):
                    ck.violation("adding a signature changed the signed payload", {"op": op}, f"payload-changed:{op}")
                if open(fn, "rb").read() != gen.oracle_bytes(mem):
                    ck.violation("the file after adding a signature is not canonical", {"op": op}, f"sign-noncanonical:{op}")
        if ok and added:
            ck.nontrivial_add((proto.enc(env)[:200], tuple(ops)))
        if len(ck.samples) < 5:
            ck.samples.append({"ops": ops, "signers": len(ks)})
    # files of every size of interest (buffer / block boundaries, incl. those the current source names) and names with suffixes that other tools attach a
    # meaning to (.bz2, .gz, .zip, .zst, .tmp, .bak): what is written is the canonical serialization — exactly once, uncompressed, under the name given
    for nbytes in gen.sizes_of_interest():
        v_ = gen.sized_payload(nbytes)
        fn2 = os.path.join(d, "sized.json")
        ck.evaluations += 1
        ck.oracle_checks += 1
        ck.count("sized-file")
        try:
            impl.common.write_metadata_to_file(v_, fn2)
            got_b = open(fn2, "rb").read()
            back = impl.common.load_metadata_from_file(fn2)
        except Exception as e:  # noqa: BLE001
            ck.violation("a file operation on a well-formed JSON value failed", {"canonical_size": nbytes, "error": repr(e)[:200]}, f"fileop-failed:sized:{type(e).__name__}")
            continue
        if got_b != gen.oracle_bytes(v_) or not proto.deep_equal(back, v_):
            ck.violation("a value whose canonical serialization has a particular size is not stored as exactly that serialization / does not load back",
                         {"canonical_size": len(gen.oracle_bytes(v_)), "file_size": len(got_b)}, "sized-file")
            break
    for suffix in (".json.bz2", ".json.gz", ".gz", ".bz2", ".zip", ".zst", ".xz", ".tmp", ".bak", ".json.partial", ".JSON", "", "/4.root.json", "/10.root.json", "/0.root.json", "/2.key_mgr.json", "/root.json"):
        fn2 = os.path.join(d, ("named" + suffix) if not suffix.startswith("/") else ("numbered" + suffix))
        os.makedirs(os.path.dirname(fn2), exist_ok=True)
        # (names as channels number their roots: what a file is called says nothing about — and need not agree with — what it holds)
        v_ = gen.envelope({"suffix": suffix, "n": [1, 2]}) if not suffix.startswith("/") else gen.envelope(gen.root_md([gen.key(1)], 1, [gen.key(2)], 1, version=7))
        ck.evaluations += 1
        ck.oracle_checks += 1
        ck.count("suffixed-file")
        try:
            impl.common.write_metadata_to_file(v_, fn2)
            got_b = open(fn2, "rb").read()
            back = impl.common.load_metadata_from_file(fn2)
            with open(fn2, "wb") as f:          # and a plain canonical file under such a name loads as what it is
                f.write(gen.oracle_bytes(v_))
            back2 = impl.common.load_metadata_from_file(fn2)
        except Exception as e:  # noqa: BLE001
            ck.violation("a file operation on a well-formed JSON value failed", {"name_suffix": suffix, "error": repr(e)[:200]}, f"fileop-failed:suffix:{type(e).__name__}")
            continue
        if got_b != gen.oracle_bytes(v_) or not proto.deep_equal(back, v_) or not proto.deep_equal(back2, v_):
            ck.violation("under a file name with a particular suffix the file written is not the canonical serialization (or does not load back)",
                         {"name_suffix": suffix, "file_head": got_b[:16].hex()}, "suffixed-file")
    # histories over several named files against the file-system model (Model/Files.lean: writeMd / loadMd / signFile; driver op `fsops`): foreign content planted
    # or files removed between the library's operations, values written, files loaded, envelopes signed in place — every operation's result and, at the end,
    # every file's bytes are compared (theorems write_over_anything, write_frame, write_then_load, signFile_frame speak about exactly these operations)
    import shutil
    ck.correspondences.add("corr:file-histories/results+final-contents")
    hd = os.path.join(d, "fs-histories")
    names = ["a.json", "b.json", "c.json"]
    wire, real = [], []
    for hno in range(ck.n(60, 16)):
        shutil.rmtree(hd, ignore_errors=True)
        os.makedirs(hd)
        toks, results = [], []
        kk = [gen.key(j) for j in rng.sample(range(10), 2)]
        base = gen.envelope(envgen.payload(rng) if rng.random() < 0.6 else gen.rand_json(rng, 3, [12]))
        if rng.random() < 0.5:
            gen.sign_env(base, kk[:1], False)
        for _ in range(rng.randint(4, 12)):
            nm = rng.choice(names)
            path = os.path.join(hd, nm)
            op = rng.choice("PWWLLSS")
            ncode = proto.codes(nm)
            if op == "P":
                v_ = rng.choice([base, {"x": [1, 2]}, [1, "a"], "text"])
                canon = gen.oracle_bytes(v_)
                content = rng.choice([canon, canon + b"\n", b"\xef\xbb\xbf" + canon, canon.replace(b"\n", b"\r\n"), b"not json\n", b"", b"{}", None, canon[:-1], b"[1, 2,]"])
                if content is None:
                    if os.path.exists(path):
                        os.unlink(path)
                    toks += ["P", ncode, "-"]
                else:
                    with open(path, "wb") as f:
                        f.write(content)
                    toks += ["P", ncode, "x" + content.hex()]
                results.append("ok")
            elif op == "W":
                v_ = rng.choice([base, gen.rand_json(rng, 3, [10]), {"signatures": {}, "signed": {"n": rng.randrange(9)}}, 10 ** 4300 if rng.random() < 0.1 else 7])
                toks += ["W", ncode, proto.enc(v_)]
                try:
                    impl.common.write_metadata_to_file(v_, path)
                    results.append("ok")
                except Exception:  # noqa: BLE001
                    results.append("E")
            elif op == "L":
                toks += ["L", ncode]
                try:
                    results.append("V " + proto.enc(impl.common.load_metadata_from_file(path)))
                except Exception:  # noqa: BLE001
                    results.append("E")
            else:
                k_ = rng.choice(kk)
                toks += ["S", ncode, k_.seed.hex()]
                try:
                    with impl.quiet_stdout():
                        loaded = impl.common.load_metadata_from_file(path)
                        impl.signing.sign_signable(loaded, impl.common.PrivateKey.from_bytes(k_.seed))
                        impl.common.write_metadata_to_file(loaded, path)
                    results.append("ok")
                except Exception:  # noqa: BLE001
                    results.append("E")
        final = {nm: (open(os.path.join(hd, nm), "rb").read() if os.path.exists(os.path.join(hd, nm)) else None) for nm in names}
        strangers = sorted(set(os.listdir(hd)) - set(names))
        wire.append("fsops " + " ".join(toks))
        real.append((results, final, strangers, toks))
    answers = ck.driver.run(wire)
    for ln, (results, final, strangers, toks), ans in zip(wire, real, answers):
        ck.evaluations += 1
        ck.oracle_checks += 1
        ck.count("file-history")
        okm = ans.startswith("F ") and " || " in ans
        bad = None
        if not okm:
            bad = "model did not answer: " + ans[:80]
        else:
            res_part, fs_part = ans[2:].split(" || ", 1)
            mres = [x.strip() for x in res_part.split(" | ")] if res_part.strip() else []
            if len(mres) != len(results):
                bad = "operation counts differ"
            else:
                for j, (a_, b_) in enumerate(zip(results, mres)):
                    same = a_ == b_ or (a_.startswith("V ") and b_.startswith("V ") and proto.deep_equal(proto.dec(a_[2:]), proto.dec(b_[2:])))
                    if not same:
                        bad = f"operation {j} ({toks_summary(toks, j)}): implementation {a_[:60]} / model {b_[:60]}"
                        break
            if bad is None:
                mfs = dict(p_.split("=", 1) for p_ in fs_part.split(" ") if "=" in p_)
                for nm in names:
                    key_ = proto.codes(nm)
                    if key_ in mfs:
                        want_b = None if mfs[key_] == "-" else bytes.fromhex(mfs[key_][1:])
                        if want_b != final[nm]:
                            bad = f"final content of {nm}: implementation {('missing' if final[nm] is None else str(len(final[nm])) + ' bytes')} / model {('missing' if want_b is None else str(len(want_b)) + ' bytes')}"
                            break
        if strangers:
            ck.violation("file operations left other files next to the ones named", {"appeared": strangers[:5]}, "stray-file:history")
        if bad:
            ck.mismatch_total += 1
            ck.mismatch_kinds["file-history"] = ck.mismatch_kinds.get("file-history", 0) + 1
            if len(ck.mismatches) < 10:
                ck.mismatches.append({"corr": "corr:file-histories/results+final-contents", "line": ln[:1500], "impl": bad, "model": ans[:300], "tag": "file-history", "meta": {}, "stdout_encoding": "utf-8"})
    from .. import gpgdirected
    gpgdirected.run(ck, impl, d)
    # a stored file opened in the interactive editor and written out unchanged (menu: 0 = write) is persisted like any other: same value, canonical bytes,
    # every signature entry as it was (displaying the metadata, or "tidying" on save, changes nothing)
    import subprocess, sys
    edd = os.path.join(d, "editor-roundtrip")
    os.makedirs(edd, exist_ok=True)
    ka, kb = gen.key(1), gen.key(2)
    long_hdr = gen.realistic_hdr(rng)
    while len(long_hdr) < 60:
        long_hdr = gen.realistic_hdr(rng)
    ed_docs = []
    r1 = gen.envelope(gen.root_md([ka, kb], 2, [gen.key(9)], 1, version=3))
    data1 = gen.oracle_bytes(r1["signed"])
    r1["signatures"][ka.hex] = gen.gpg_entry(ka, data1, long_hdr)                       # an OpenPGP entry with a long hashed area
    r1["signatures"][kb.hex] = gen.raw_entry(kb, data1)                                # a raw entry on root metadata
    ed_docs.append(("root-mixed-entries", r1))
    k1 = gen.envelope(gen.delegating_md("key_mgr", {"pkg_mgr": gen.delegation([gen.key(8)], 1)}, version=2))
    k1["signatures"][ka.hex] = gen.gpg_entry(ka, gen.oracle_bytes(k1["signed"]), long_hdr)      # an OpenPGP entry on non-root metadata
    k1["signatures"]["junk"] = "x"
    k1["signatures"][kb.hex.upper()] = gen.raw_entry(kb, gen.oracle_bytes(k1["signed"]))
    ed_docs.append(("key_mgr-gpg-entry", k1))
    for label, doc_ in ed_docs:
        src, out_ = os.path.join(edd, label + ".json"), os.path.join(edd, label + ".out.json")
        with open(src, "wb") as f:
            f.write(gen.oracle_bytes(doc_))
        if os.path.exists(out_):
            os.unlink(out_)
        env_ = dict(os.environ, PYTHONPATH=os.environ.get("CCT_REPO", "/repo"), PYTHONDONTWRITEBYTECODE="1", PYTHONIOENCODING="utf-8")
        p_ = subprocess.run([sys.executable, "-m", "conda_content_trust", "modify-metadata", src], input=("0\n" + out_ + "\n").encode(), env=env_, cwd=edd,
                            stdout=subprocess.PIPE, stderr=subprocess.PIPE, timeout=120)
        ck.evaluations += 1
        ck.oracle_checks += 1
        ck.count("editor-roundtrip:exit%d" % p_.returncode)
        got_ = open(out_, "rb").read() if os.path.exists(out_) else None
        if got_ is None:
            ck.count("editor-roundtrip:nothing-written")            # (an editor that refuses to write is C17's business, not a persistence question)
            continue
        if got_ != gen.oracle_bytes(doc_) or open(src, "rb").read() != gen.oracle_bytes(doc_):
            try:
                import json as _json
                back_ = _json.loads(got_)
                lost = sorted(proto.label(k_) for k_ in doc_["signatures"] if k_ not in back_.get("signatures", {}) or back_["signatures"][k_] != doc_["signatures"][k_])
            except Exception:  # noqa: BLE001
                lost = ["<file does not parse>"]
            ck.violation("a stored file opened in the editor and written out unchanged does not hold the same envelope (entries dropped or altered)",
                         {"document": label, "entries_dropped_or_altered": lost[:6]}, "editor-roundtrip:" + label)
    # any JSON value survives write + load, not only envelopes: top-level strings (also ones that look like JSON text), numbers, arrays, null
    for v in ["123", "null", '{"a": 1}', "\u00e9", "", " ", '"quoted"', "[1, 2]", 5, -1, 1.5, True, None, [1, "a"], [], {}, "x" * 70, "\ud800", gen.rand_json(rng, 3, [10]),
              "[" * 1500, {"note": "{" * 2500, "list": ["[{" * 600]}, {"signatures": {}, "signed": {"description": "]" * 1200 + "[" * 1300}}, "2.5\" drives // see https://example.org"]:
        try:
            impl.common.write_metadata_to_file(v, fn)
            b = open(fn, "rb").read()
            back = impl.common.load_metadata_from_file(fn)
        except Exception as e:  # noqa: BLE001
            ck.violation("a file operation on a well-formed JSON value failed", {"value": proto.enc(v)[:300], "error": repr(e)[:200]}, f"fileop-failed:write-any:{type(e).__name__}")
            continue
        ck.oracle_checks += 1
        ck.evaluations += 1
        ck.count("fileop:write-any-value")
        if b != gen.oracle_bytes(v) or not proto.deep_equal(back, v):
            ck.violation("a JSON value does not survive write + load / the file is not its canonical form", {"value": proto.enc(v)[:300], "file": b[:200].hex()}, "write-any-value")
    res = ck.run_cases(ser_cases, "corr:write_metadata_to_file/bytes")
    for r, b in zip(res, ser_expect):
        ck.oracle_checks += 1
        if r.model != "B " + b.hex():
            pass  # recorded as a correspondence mismatch by run_cases when the implementation's canonserialize differs; file vs model:
        if r.model.startswith("B ") and bytes.fromhex(r.model[2:]) != b:
            ck.mismatch_total += 1
            ck.mismatch_kinds["file-bytes-vs-model"] = ck.mismatch_kinds.get("file-bytes-vs-model", 0) + 1
            if len(ck.mismatches) < 10:
                ck.mismatches.append({"corr": "corr:write_metadata_to_file/bytes", "line": "ser " + proto.enc(r.case.args[0])[:1500], "impl": "file " + b[:200].hex(), "model": r.model[:400], "tag": "file", "meta": {}, "stdout_encoding": "utf-8"})
