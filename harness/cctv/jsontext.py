"""Random JSON *text* for a value (many spellings of the same value) and malformed variants."""
from __future__ import annotations

WS = [" ", "\t", "\n", "\r", "", "", "", "  "]


def _ws(rng):
    return rng.choice(WS)


def _str_text(rng, s: str, stats=None) -> str:
    out = ['"']
    i = 0
    short = {'"': '\\"', "\\": "\\\\", "\n": "\\n", "\r": "\\r", "\t": "\\t", "\b": "\\b", "\f": "\\f", "/": "\\/"}
    for c in s:
        o = ord(c)
        r = rng.random()
        if c in ('"', "\\") or o < 0x20:
            if c in short and r < 0.6:
                out.append(short[c])
            else:
                out.append(("\\u%04x" if r < 0.8 else "\\u%04X") % o)
        elif c == "/" and r < 0.3:
            out.append("\\/")
        elif 0xD800 <= o <= 0xDFFF:
            # lone surrogates can only be written as escapes in valid UTF-8 text; with surrogatepass raw works too
            out.append(("\\u%04x" if r < 0.5 else "\\u%04X") % o)
        elif o >= 0x10000:
            if r < 0.5:
                out.append(c)
            else:
                o2 = o - 0x10000
                out.append("\\u%04x\\u%04x" % (0xD800 + (o2 >> 10), 0xDC00 + (o2 & 0x3FF)))
        elif o >= 0x7F:
            out.append(c if r < 0.5 else "\\u%04x" % o)
        else:
            out.append(c if r < 0.9 else "\\u%04x" % o)
    out.append('"')
    return "".join(out)


def rand_text(rng, v, float_variants: bool = True) -> str:
    """JSON text that parses to v (floats written with repr; with `float_variants` sometimes with an upper-case exponent marker — only for
    comparisons by value: the model keeps a float's token as written, the implementation re-renders it)"""
    if v is None:
        return "null"
    if v is True:
        return "true"
    if v is False:
        return "false"
    if isinstance(v, int):
        if v == 0 and rng.random() < 0.2:
            return "-0"
        return str(v)
    if isinstance(v, float):
        if v != v:
            return "NaN"
        if v == float("inf"):
            return "Infinity"
        if v == float("-inf"):
            return "-Infinity"
        t = repr(v)
        if float_variants and rng.random() < 0.2:
            t = t.replace("e", "E")
        return t
    if isinstance(v, str):
        return _str_text(rng, v)
    if isinstance(v, (list, tuple)):
        return "[" + _ws(rng) + ("," + _ws(rng)).join(_ws(rng) + rand_text(rng, x, float_variants) + _ws(rng) for x in v) + _ws(rng) + "]"
    if isinstance(v, dict):
        parts = []
        for k, x in v.items():
            if rng.random() < 0.05:  # duplicate key: the later value wins, position of the first
                parts.append(_ws(rng) + _str_text(rng, k) + _ws(rng) + ":" + _ws(rng) + rng.choice(["1", "null", '"dup"']) + _ws(rng))
            parts.append(_ws(rng) + _str_text(rng, k) + _ws(rng) + ":" + _ws(rng) + rand_text(rng, x, float_variants) + _ws(rng))
        # duplicates must precede the real one to keep the value; we inserted them before, fine
        return "{" + ",".join(parts) + "}"
    raise TypeError(type(v))


BAD_SNIPPETS = [",", "]", "}", "[", "{", '"', "\\", "\\x", "\\u12", "\\u12G4", "tru", "nul", "NaN", "nan", "Inf", "-", "+1", "01", "1.", ".5",
                "1e", "1e+", "0x10", "'a'", "\x00", "\x1f", "\n", " ", "/*c*/", "//c", "1 2", ":", "﻿", "-Infinity", "Infinity", "-NaN", "1_0",
                "١", " ", " ", "true", "[,]", "{,}", '{"a"}', '{"a":}', '{1:2}', "[1,]", '{"a":1,}']


def mutate_text(rng, t: str) -> str:
    """mostly-invalid neighbour of a JSON text"""
    r = rng.random()
    if not t or r < 0.1:
        return rng.choice(BAD_SNIPPETS)
    i = rng.randrange(len(t))
    if r < 0.4:
        return t[:i] + t[i + 1:]
    if r < 0.8:
        return t[:i] + rng.choice(BAD_SNIPPETS) + t[i:]
    if r < 0.9:
        return t + rng.choice(BAD_SNIPPETS)
    return t[:i]
