"""Proof side of every check: build the Lean project, refuse forbidden constructs, and audit the axioms of
every theorem of the property (`#print axioms`).  Failures here cannot be caused by an edit to /repo:
they are infrastructure errors (exit 2), never violations."""
from __future__ import annotations

import fcntl
import glob
import hashlib
import json
import os
import re
import subprocess
import time

from .proto import VERIF

LEAN = os.path.join(VERIF, "lean")
ALLOWED_AXIOMS = {"propext", "Classical.choice", "Quot.sound"}
FORBIDDEN = re.compile(r"\b(sorry|admit|native_decide|bv_decide|implemented_by)\b|^\s*axiom\s|\bunsafe\s|maxHeartbeats\s+0\b")


class InfraError(Exception):
    pass


def _strip_comments(src: str) -> str:
    # remove /- ... -/ (nested) and -- line comments
    out, i, depth = [], 0, 0
    while i < len(src):
        if src.startswith("/-", i):
            depth += 1
            i += 2
            continue
        if src.startswith("-/", i) and depth > 0:
            depth -= 1
            i += 2
            continue
        if depth == 0:
            if src.startswith("--", i):
                j = src.find("\n", i)
                i = len(src) if j < 0 else j
                continue
            out.append(src[i])
        elif src[i] == "\n":
            out.append("\n")
        i += 1
    return "".join(out)


def lean_sources() -> list[str]:
    fs = sorted(glob.glob(os.path.join(LEAN, "CCT", "**", "*.lean"), recursive=True))
    fs += [os.path.join(LEAN, "CCT.lean"), os.path.join(LEAN, "Driver.lean"), os.path.join(LEAN, "lakefile.toml")]
    return fs


def sources_hash() -> str:
    h = hashlib.sha256()
    for f in lean_sources():
        h.update(f.encode())
        with open(f, "rb") as fh:
            h.update(fh.read())
    return h.hexdigest()


def forbidden_scan() -> list[str]:
    hits = []
    for f in lean_sources():
        if not f.endswith(".lean") or f.endswith("Driver.lean"):
            continue
        code = _strip_comments(open(f, encoding="utf-8").read())
        for n, line in enumerate(code.split("\n"), 1):
            if FORBIDDEN.search(line):
                hits.append(f"{os.path.relpath(f, LEAN)}:{n}: {line.strip()[:100]}")
    return hits


def build(targets: list[str] | None = None) -> float:
    t0 = time.time()
    lock = open(os.path.join(LEAN, ".build.lock"), "w")
    fcntl.flock(lock, fcntl.LOCK_EX)
    try:
        p = subprocess.run(["lake", "build"] + (targets or []), cwd=LEAN, stdout=subprocess.PIPE, stderr=subprocess.STDOUT, text=True)
    finally:
        fcntl.flock(lock, fcntl.LOCK_UN)
        lock.close()
    if p.returncode != 0:
        errs = [ln for ln in p.stdout.split("\n") if "error" in ln.lower()]
        raise InfraError("lake build failed:\n" + "\n".join(errs[:12])[:1500])
    return time.time() - t0


def theorems_of(prop_id: str) -> list[str]:
    """fully qualified names of every theorem declared in CCT/Props/<ID>.lean"""
    f = os.path.join(LEAN, "CCT", "Props", prop_id + ".lean")
    if not os.path.exists(f):
        raise InfraError(f"no property file {f}")
    code = _strip_comments(open(f, encoding="utf-8").read())
    ns, names = [], []
    for line in code.split("\n"):
        m = re.match(r"\s*namespace\s+(\S+)", line)
        if m:
            ns.append(m.group(1))
            continue
        m = re.match(r"\s*end\s+(\S+)\s*$", line)
        if m and ns and ns[-1] == m.group(1):
            ns.pop()
            continue
        m = re.match(r"\s*(?:@\[[^\]]*\]\s*)?(?:private\s+|protected\s+)?theorem\s+([^\s:({\[]+)", line)
        if m:
            names.append(".".join(ns + [m.group(1)]))
    return names


def audit(prop_id: str) -> dict:
    """returns {theorem: [axioms]} for every theorem of the property; cached on the hash of the Lean sources"""
    cache_f = os.path.join(LEAN, ".lake", "audit-cache.json")
    h = sources_hash()
    cache = {}
    if os.path.exists(cache_f):
        try:
            cache = json.load(open(cache_f))
        except Exception:
            cache = {}
    key = h + ":" + prop_id
    if key in cache:
        return cache[key]
    names = theorems_of(prop_id)
    if not names:
        raise InfraError(f"property file for {prop_id} declares no theorem")
    src = f"import CCT.Props.{prop_id}\n" + "".join(f"#print axioms {n}\n" for n in names)
    tmp = os.path.join(LEAN, ".lake", f"audit_{prop_id}_{os.getpid()}.lean")
    os.makedirs(os.path.dirname(tmp), exist_ok=True)
    with open(tmp, "w") as fh:
        fh.write(src)
    try:
        p = subprocess.run(["lake", "env", "lean", tmp], cwd=LEAN, stdout=subprocess.PIPE, stderr=subprocess.STDOUT, text=True)
    finally:
        os.unlink(tmp)
    if p.returncode != 0:
        raise InfraError("axiom audit failed to run:\n" + p.stdout[-3000:])
    res: dict[str, list[str]] = {}
    text = p.stdout.replace("\n  ", " ")
    for m in re.finditer(r"'([^']+)' depends on axioms: \[([^\]]*)\]", text):
        res[m.group(1)] = [a.strip() for a in m.group(2).split(",") if a.strip()]
    for m in re.finditer(r"'([^']+)' does not depend on any axioms", text):
        res[m.group(1)] = []
    missing = [n for n in names if n not in res]
    if missing:
        raise InfraError(f"audit produced no answer for {missing}:\n{p.stdout[-2000:]}")
    cache = {k: v for k, v in cache.items() if k.startswith(h)}
    cache[key] = res
    with open(cache_f, "w") as fh:
        json.dump(cache, fh)
    return res


def gate(prop_id: str, thorough: bool = False) -> dict:
    """build + scan + audit (+ leanchecker in thorough).  Returns the proof part of the evidence."""
    t = build()
    hits = forbidden_scan()
    if hits:
        raise InfraError("forbidden construct in Lean sources:\n" + "\n".join(hits))
    ax = audit(prop_id)
    bad = {k: v for k, v in ax.items() if not set(v) <= ALLOWED_AXIOMS}
    if bad:
        raise InfraError(f"theorems depend on axioms outside {sorted(ALLOWED_AXIOMS)}: {bad}")
    out = {
        "obligations": len(ax),
        "discharged": len(ax) - len(bad),
        "theorems": ax,
        "build_s": round(t, 2),
        "checker_cmd": f"cd /verif/lean && lake build && lake env lean <#print axioms of every theorem in CCT/Props/{prop_id}.lean>",
    }
    if thorough:
        t0 = time.time()
        p = subprocess.run(["lake", "env", "leanchecker", f"CCT.Props.{prop_id}"], cwd=LEAN, stdout=subprocess.PIPE,
                           stderr=subprocess.STDOUT, text=True)
        if p.returncode != 0:
            raise InfraError("leanchecker rejected the compiled proofs:\n" + p.stdout[-3000:])
        out["leanchecker_s"] = round(time.time() - t0, 1)
        out["checker_cmd"] += f" && lake env leanchecker CCT.Props.{prop_id}"
    return out
