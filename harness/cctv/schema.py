"""Independent oracles written from the documented formats: UTC timestamps, delegations, delegating metadata,
and the specifications of verify_delegation / verify_root in terms of them."""
from __future__ import annotations

import datetime
import re
import unicodedata

from . import envgen
from .props.c15 import is_lower_hex, o_gpg_sig, o_signature

_D = r"\d"
_UTC = re.compile(
    r"(?P<Y>\d\d\d\d)-(?P<m>1[0-2]|0[1-9]|[1-9])-(?P<d>3[0-1]|[1-2]\d|0[1-9]|[1-9]| [1-9])[Tt]"
    r"(?P<H>2[0-3]|[0-1]\d|\d):(?P<M>[0-5]\d|\d):(?P<S>6[0-1]|[0-5]\d|\d)[Zz]")


def wf_utc(s) -> bool:
    """strings `datetime.strptime(s, "%Y-%m-%dT%H:%M:%SZ")` accepts: the directive grammar of the library reference
    (one- or two-digit fields, any Unicode decimal digit where the directive says 'digit') plus calendar validity"""
    if not isinstance(s, str):
        return False
    m = _UTC.fullmatch(s)
    if not m:
        return False
    try:
        datetime.datetime(int(m["Y"]), int(m["m"]), int(m["d"]), int(m["H"]), int(m["M"]), int(m["S"]))
    except ValueError:
        return False
    return True


def natural_int(x) -> bool:
    return isinstance(x, int) and x >= 1


def o_delegation(d) -> bool:
    return (isinstance(d, dict) and set(d) == {"pubkeys", "threshold"} and isinstance(d["pubkeys"], list)
            and all(is_lower_hex(k, 64) for k in d["pubkeys"]) and len(set(d["pubkeys"])) == len(d["pubkeys"])
            and natural_int(d["threshold"]))


def o_delegations(ds) -> bool:
    return isinstance(ds, dict) and all(isinstance(k, str) and o_delegation(v) for k, v in ds.items())


def o_signed_part(s) -> bool:
    if not isinstance(s, dict):
        return False
    for f in ("type", "metadata_spec_version", "delegations", "expiration"):
        if f not in s:
            return False
    if not isinstance(s["type"], str) or s["type"] not in ("root", "key_mgr"):
        return False
    if not isinstance(s["metadata_spec_version"], str):
        return False
    if not o_delegations(s["delegations"]) or not wf_utc(s["expiration"]):
        return False
    if "timestamp" not in s and "version" not in s:
        return False
    if s["type"] == "root" and "version" not in s:
        return False
    if "timestamp" in s and not wf_utc(s["timestamp"]):
        return False
    if "version" in s and not natural_int(s["version"]):
        return False
    return True


def o_signable(m) -> bool:
    return isinstance(m, dict) and set(m) == {"signatures", "signed"} and isinstance(m["signatures"], dict)


def o_delegating_md(m) -> bool:
    """the documented schema of delegating metadata (C14)"""
    return (o_signable(m) and all(o_signature(v) or o_gpg_sig(v) for v in m["signatures"].values()) and o_signed_part(m["signed"]))


def spec_verify_delegation_set(role, untrusted, trusted, gpg) -> set:
    """acceptable outcome classes of verify_delegation, from the property texts (C05, C06, C13); when several
    rejection reasons apply at once any of them is acceptable"""
    if not isinstance(role, str) or not (gpg is True or gpg is False or gpg in (0, 1)):
        return {"E ArgError"}
    if not o_delegating_md(trusted) or not o_signable(untrusted):
        return {"E ArgError"}
    reasons = set()
    if o_signed_part(untrusted["signed"]) and untrusted["signed"]["type"] != role:
        reasons.add("E MetadataVerificationError")
    dels = trusted["signed"]["delegations"]
    if role not in dels:
        reasons.add("E UnknownRoleError")
    else:
        d = dels[role]
        if len(envgen.counting_keys(untrusted, d["pubkeys"], bool(gpg))) < d["threshold"]:
            reasons.add("E SignatureError")
    return reasons or {"OK"}


def spec_verify_delegation(role, untrusted, trusted, gpg) -> str:
    """the outcome in the order the documentation lists the checks"""
    s = spec_verify_delegation_set(role, untrusted, trusted, gpg)
    for c in ("E ArgError", "E MetadataVerificationError", "E UnknownRoleError", "E SignatureError", "OK"):
        if c in s:
            return c


def spec_verify_root(trusted, untrusted) -> set:
    """set of acceptable outcome classes of verify_root (several rejection reasons may apply at once)"""
    if not o_delegating_md(trusted) or not o_delegating_md(untrusted):
        return {"E ArgError"}
    ts, us = trusted["signed"], untrusted["signed"]
    if ts["type"] != "root" or us["type"] != "root":
        return {"E ArgError"}
    if "root" not in ts["delegations"] or "root" not in us["delegations"]:
        return {"E ArgError"}
    reasons = set()
    if int(ts["version"]) + 1 != int(us["version"]) or isinstance(ts["version"], float) or isinstance(us["version"], float):
        reasons.add("E MetadataVerificationError")
    d1, d2 = ts["delegations"]["root"], us["delegations"]["root"]
    if len(envgen.counting_keys(untrusted, d1["pubkeys"], True)) < d1["threshold"]:
        reasons.add("E SignatureError")
    if len(envgen.counting_keys(untrusted, d2["pubkeys"], True)) < d2["threshold"]:
        reasons.add("E SignatureError")
    return reasons or {"OK"}


def acceptable_outcomes(op: str, args: list):
    """for the two verifiers where several rejection reasons can apply at once: the set of outcome classes the properties allow for
    these arguments (None = no opinion).  Used to tell a harmless re-ordering of independent checks from a real disagreement."""
    from . import proto
    if op == "gpg":
        # the GPG signing path: no property speaks about *which* error a malformed request gets (C13 is about validators and verifiers), and its
        # argument checks are independent of each other; every rejection is as good as any other
        return {"E ArgError", "E AttributeError", "E ImportError", "E OSError", "E KeyError"}
    try:
        if any(isinstance(a, (proto.Opaque, proto.KeyObj, bytes, bytearray, tuple)) for a in args):
            return None
        if op == "vroot":
            return spec_verify_root(args[0], args[1]) if all(isinstance(a, dict) for a in args) else None
        if op == "vdeleg":
            role, u, t, gpg = args
            if not isinstance(role, str) or not isinstance(gpg, (bool, int)) or isinstance(gpg, float):
                return None
            return spec_verify_delegation_set(role, u, t, gpg)
    except Exception:
        return None
    return None
