"""Envelope generators for the verifiers: per-key entry states x authorized subsets x boundary-directed
thresholds x both modes, plus the independent oracle that counts valid authorized signers."""
from __future__ import annotations

import copy

import cryptography.exceptions
from cryptography.hazmat.primitives.asymmetric import ed25519

from . import gen
from .props.c15 import is_lower_hex, o_gpg_sig, o_signature


def prim_verify(pub: bytes, msg: bytes, sig: bytes) -> bool:
    try:
        ed25519.Ed25519PublicKey.from_public_bytes(pub).verify(sig, msg)
        return True
    except cryptography.exceptions.InvalidSignature:
        return False


def counting_keys(env: dict, auth: list, gpg: bool) -> list:
    """keys of the signature map that count: canonical spelling, authorized, entry of the mode's shape,
    cryptographically valid over the canonical bytes of the presented payload.  Written from the property text."""
    data = gen.oracle_bytes(env["signed"])
    out = []
    for k, e in env["signatures"].items():
        if not is_lower_hex(k, 64) or k not in auth:
            continue
        if gpg:
            if not o_gpg_sig(e):
                continue
            msg = gen.gpg_digest(data, bytes.fromhex(e["other_headers"]))
        else:
            if not o_signature(e):
                continue
            msg = data
        if prim_verify(bytes.fromhex(k), msg, bytes.fromhex(e["signature"])):
            out.append(k)
    return out


def well_typed(env, auth, thr) -> bool:
    return (isinstance(env, dict) and set(env) == {"signatures", "signed"} and isinstance(env["signatures"], dict)
            and isinstance(auth, list) and all(is_lower_hex(k, 64) for k in auth)
            and isinstance(thr, int) and thr > 0)


def expected_signable(env, auth, thr, gpg) -> str:
    if not well_typed(env, auth, thr):
        return "E ArgError"
    return "OK" if len(counting_keys(env, auth, bool(gpg))) >= thr else "E SignatureError"


def strip_env(env: dict, auth: list, gpg: bool) -> dict:
    """the envelope that keeps only its valid signatures by authorized keys"""
    keep = set(counting_keys(env, auth, gpg))
    return {"signatures": {k: v for k, v in env["signatures"].items() if k in keep}, "signed": env["signed"]}


def payload(rng, stats=None):
    r = rng.random()
    if r < 0.04:
        # a payload whose canonical bytes end exactly on a buffer / hash-block / length-field boundary
        n = rng.choice([x for x in gen.sizes_of_interest() if x <= 70000])
        if stats is not None:
            stats["sized-payload"] = stats.get("sized-payload", 0) + 1
        return gen.sized_payload(n)
    r = rng.random()
    if r < 0.5:
        return gen.rand_json(rng, depth=3, budget=[rng.choice([1, 6, 25])], stats=stats)
    if r < 0.8:
        ks = [gen.key(rng.randrange(6)) for _ in range(rng.randint(1, 3))]
        return gen.root_md(ks, rng.randint(1, 2), [gen.key(7)], 1, version=rng.randint(1, 5))
    return {"name": "pkg", "version": "1.0", "depends": ["a >=1", "b"], "size": rng.randint(0, 10**6), "é": 1.5}


def signable_case(rng, gpg: bool, stats: dict | None = None, states=None, npool=None) -> dict:
    """one envelope with a chosen state for every key of a small pool"""
    npool = npool or rng.randint(1, 5)
    pool = rng.sample(range(10), npool)
    signed = payload(rng, stats)
    data = gen.oracle_bytes(signed)
    entries = []
    chosen = {}
    pref = (["gpg_valid", "gpg_valid_see_also"] if gpg else ["raw_valid", "raw_valid_gpg_shape"])
    for i in pool:
        k = gen.key(i)
        if states is not None:
            st = states[len(chosen) % len(states)]
        else:
            st = rng.choice(pref) if rng.random() < 0.45 else rng.choice(gen.ENTRY_STATES)
        chosen[k.hex] = st
        if stats is not None:
            stats["state:" + st] = stats.get("state:" + st, 0) + 1
        e = gen.make_entry(rng, st, k, data, gpg, gen.key((i + 1) % 10))
        if e is not None:
            entries.append(e)
    for _ in range(rng.choice([0, 0, 1, 2, 3])):
        entries.append(gen.junk_entry(rng))
        if stats is not None:
            stats["state:junk"] = stats.get("state:junk", 0) + 1
    rng.shuffle(entries)
    env = {"signatures": {}, "signed": signed}
    if rng.random() < 0.5:
        env = {"signed": signed, "signatures": {}}
    if rng.random() < 0.06:
        # a crowded signature map: dozens of well-formed entries by strangers ahead of the ones that matter (position must not matter)
        import hashlib as _h
        for j in range(rng.choice([33, 40, 70])):
            kk = _h.sha256(b"stranger%d" % j).hexdigest()
            env["signatures"][kk] = ({"signature": "00" * 64} if not gpg else {"other_headers": "04001608", "signature": "00" * 64})
        if stats is not None:
            stats["state:crowded-map"] = stats.get("state:crowded-map", 0) + 1
    if rng.random() < 0.12:
        # ahead of everything else in the map: copies of the values of the entries that follow, filed under junk / unauthorized indexes (an attacker can copy
        # what is public); whatever is remembered about a *value* seen under such an index must not keep the genuine entry from counting
        for k, v in entries[:3]:
            if isinstance(k, str) and len(k) == 64:
                env["signatures"][rng.choice(["00" * 32, "copy-of-" + k[:8], gen.key(15).hex, k.upper()])] = copy.deepcopy(v)
        if stats is not None:
            stats["state:copied-values-first"] = stats.get("state:copied-values-first", 0) + 1
    for k, v in entries:
        env["signatures"][k] = v
    # authorized list: random subset of the pool plus strangers, shuffled
    auth = [gen.key(i).hex for i in pool if rng.random() < 0.7]
    auth += [gen.key(i).hex for i in rng.sample(range(10, 14), rng.choice([0, 0, 1, 2]))]
    rng.shuffle(auth)
    if rng.random() < 0.08:
        # an authorized "key" that is 64 hex digits but no point of the curve (a placeholder such as ff..ff, a typo), with a well-formed entry filed under
        # it: the entry is simply invalid, like any other that does not verify — it neither counts nor disturbs the ones that do
        bogus = rng.choice(["ff" * 32, "02" + "00" * 31, "ee" * 32, "f" * 63 + "e"])
        auth.insert(rng.randrange(len(auth) + 1), bogus)
        env["signatures"][bogus] = ({"signature": "ab" * 64} if not gpg else {"other_headers": "04001608", "signature": "ab" * 64})
        chosen[bogus] = "authorized-non-point-key"
        if stats is not None:
            stats["state:authorized-non-point-key"] = stats.get("state:authorized-non-point-key", 0) + 1
    if rng.random() < 0.05 and auth:
        auth.append(auth[0])  # a duplicate in the authorized list must not double count
    if rng.random() < 0.08:
        # an alternative spelling of a pool key in the *authorized list* itself, with the key's valid entry also filed under that spelling:
        # the list is then ill-formed (argument error); were it accepted, one signer would count twice
        k0 = gen.key(pool[0])
        alt = rng.choice(gen.alt_spellings(k0.hex))
        if alt != k0.hex:
            if k0.hex not in auth:
                auth.append(k0.hex)
            auth.insert(rng.randrange(len(auth) + 1), alt)
            e = gen.make_entry(rng, pref[0], k0, data, gpg, k0)
            env["signatures"][k0.hex] = e[1]
            env["signatures"][alt] = copy.deepcopy(e[1])
            chosen[k0.hex] = "valid+alt-spelling-authorized"
            if stats is not None:
                stats["state:alt-spelling-in-authorized-list"] = stats.get("state:alt-spelling-in-authorized-list", 0) + 1
    return {"env": env, "auth": auth, "gpg": gpg, "states": chosen}


def thresholds_for(rng, c: int, nauth: int) -> list:
    """boundary-directed: exactly at and just above the number of counting keys"""
    ts = {max(1, c), c + 1, 1}
    if rng.random() < 0.3:
        ts.add(max(1, nauth))
        ts.add(nauth + 1)
    if rng.random() < 0.15:
        ts.add(max(1, c - 1))
    return sorted(ts)


BAD_THRESHOLDS = [0, -1, None, "1", 1.0, 1.5, [1], float("inf"), float("nan"), -2**70]


def retyped(v):
    """the value with every number / bool replaced by one that Python's == cannot tell from it but JSON can (1 <-> 1.0 <-> True, 0 <-> False)"""
    if isinstance(v, dict):
        return {k: retyped(x) for k, x in v.items()}
    if isinstance(v, list):
        return [retyped(x) for x in v]
    if v is True:
        return 1
    if v is False:
        return 0
    if isinstance(v, int) and abs(v) < 2**53:
        return float(v)
    if isinstance(v, float) and v == v and abs(v) < 2**53 and v == int(v):
        return int(v) if repr(v) != "-0.0" else 0.0
    return v
