"""Constants mined from the library's *current* source (the dictionary technique of fuzzers): string, bytes and integer literals that the
committed baseline of the pinned tree (`corpus/literals_baseline.json`) does not contain.  They only steer the generators — which role
names, field names, types, thresholds, counts and lengths get tried — and never enter a verdict: model, oracle and implementation judge the
resulting cases like any other.  On the unchanged tree the novel sets are empty and the generators draw exactly as without this module."""
from __future__ import annotations

import ast
import json
import os

from .proto import VERIF

BASELINE = os.path.join(VERIF, "corpus", "literals_baseline.json")


def _pkg_dir() -> str:
    return os.path.join(os.path.realpath(os.environ.get("CCT_REPO", "/repo")), "conda_content_trust")


def literals(pkg_dir: str | None = None) -> tuple[set, set]:
    """(strings, ints) appearing as constants in the package, docstrings excluded; f-string fragments and bytes (as latin-1 text) included"""
    pkg_dir = pkg_dir or _pkg_dir()
    strs, ints = set(), set()
    for fn in sorted(os.listdir(pkg_dir)):
        if not fn.endswith(".py"):
            continue
        try:
            tree = ast.parse(open(os.path.join(pkg_dir, fn), encoding="utf-8", errors="replace").read())
        except SyntaxError:
            continue
        doc = set()
        for node in ast.walk(tree):
            if isinstance(node, (ast.Module, ast.FunctionDef, ast.AsyncFunctionDef, ast.ClassDef)) and node.body:
                b = node.body[0]
                if isinstance(b, ast.Expr) and isinstance(b.value, ast.Constant) and isinstance(b.value.value, str):
                    doc.add(id(b.value))
            if isinstance(node, ast.Expr) and isinstance(node.value, ast.Constant) and isinstance(node.value.value, str):
                doc.add(id(node.value))      # a bare string statement is a comment
        for node in ast.walk(tree):
            if isinstance(node, ast.BinOp):
                v = _fold(node)          # 64 * 1024, 1 << 16, 2 ** 20 - 1: the value the code uses is the folded one
                if isinstance(v, int) and not isinstance(v, bool) and abs(v) < 1 << 64:
                    ints.add(v)
            if isinstance(node, ast.Constant) and id(node) not in doc:
                v = node.value
                if isinstance(v, str):
                    strs.add(v)
                elif isinstance(v, bytes):
                    strs.add(v.decode("latin-1"))
                elif isinstance(v, int) and not isinstance(v, bool):
                    ints.add(v)
    return strs, ints


def _fold(node):
    """value of an arithmetic expression over integer literals, or None"""
    if isinstance(node, ast.Constant) and isinstance(node.value, int) and not isinstance(node.value, bool):
        return node.value
    if isinstance(node, ast.UnaryOp) and isinstance(node.op, ast.USub):
        v = _fold(node.operand)
        return None if v is None else -v
    if isinstance(node, ast.BinOp):
        a, b = _fold(node.left), _fold(node.right)
        if a is None or b is None:
            return None
        try:
            if isinstance(node.op, ast.Mult):
                return a * b
            if isinstance(node.op, ast.Add):
                return a + b
            if isinstance(node.op, ast.Sub):
                return a - b
            if isinstance(node.op, ast.LShift) and 0 <= b < 64:
                return a << b
            if isinstance(node.op, ast.Pow) and 0 <= b < 64 and abs(a) <= 1 << 16:
                return a ** b
            if isinstance(node.op, ast.FloorDiv) and b:
                return a // b
        except Exception:
            return None
    return None


_cache = None


def novel() -> dict:
    """{"str": [...], "int": [...]}: literals of the current tree that the baseline lacks (short strings first; capped)"""
    global _cache
    if _cache is None:
        try:
            base = json.load(open(BASELINE))
        except Exception:
            base = {"str": [], "int": []}
        try:
            s, i = literals()
        except Exception:
            s, i = set(), set()
        ns = sorted(s - set(base["str"]), key=lambda x: (" " in x or "\n" in x, len(x), x))
        ns = [x for x in ns if 0 < len(x) <= 80][:60]
        # pieces of novel strings are candidates too (a prefix such as "x-" or a suffix such as ".sig")
        ni = sorted(set(i) - set(base["int"]), key=abs)[:40]
        _cache = {"str": ns, "int": ni}
    return _cache


def strs() -> list:
    return novel()["str"]


def ints() -> list:
    return novel()["int"]


def near_ints() -> list:
    out = []
    for n in ints():
        for d in (-1, 0, 1):
            if n + d not in out:
                out.append(n + d)
    return out


if __name__ == "__main__":
    import sys
    if sys.argv[1:] == ["--write-baseline"]:
        s, i = literals()
        json.dump({"str": sorted(s), "int": sorted(i)}, open(BASELINE, "w"), indent=0, ensure_ascii=True)
        print("baseline:", len(s), "strings", len(i), "ints")
    else:
        print(json.dumps(novel(), ensure_ascii=True))
