"""Check skeleton: run cases on implementation and model, compare observables, evaluate property oracles,
write replays and evidence, honour KNOWN_FINDINGS.txt."""
from __future__ import annotations

import json
import os
import random
import sys
import time
import traceback
from dataclasses import dataclass, field

from . import proto
from .proto import VERIF


@dataclass
class Case:
    op: str
    args: list
    tag: str = ""                      # generator class / entry-state label (for the distribution tables)
    meta: dict = field(default_factory=dict)
    group: int = 0                     # cases of one group go to the same driver process (shared memo)
    enc: str = "utf-8"                 # stdout encoding the implementation runs under


@dataclass
class Result:
    case: Case
    impl: str
    model: str
    agree: bool


def answers_agree(a: str, b: str) -> bool:
    if a == b:
        return True
    if a.startswith("V ") and b.startswith("V "):
        if a[2:3] in "KP" or b[2:3] in "KP":
            return False   # key objects: exact string equality only (handled above)
        try:
            return proto.deep_equal(proto.dec(a[2:]), proto.dec(b[2:]))
        except Exception:
            return False
    return False


def short(x, n=300):
    s = x if isinstance(x, str) else repr(x)
    return s if len(s) <= n else s[:n] + f"...(+{len(s) - n})"


THOROUGH_SCALE = {"C01": 8, "C02": 10, "C03": 10, "C04": 8, "C05": 10, "C06": 10, "C07": 6, "C08": 10, "C09": 2.5, "C10": 10, "C11": 6, "C12": 8,
                  "C13": 8, "C14": 8, "C15": 2, "C16": 10, "C17": 1, "C18": 6, "C19": 10}


class Check:
    """one run of one property's check"""

    def __init__(self, prop_id: str, tier: str, seed: int):
        self.prop_id = prop_id
        self.tier = tier
        self.thorough = tier == "thorough"
        self.seed = seed
        self.rng = random.Random(f"{prop_id}:{seed}")
        self.t0 = time.time()
        self.driver = proto.Driver()
        self.evaluations = 0
        self.nontrivial: set = set()
        self.dist: dict = {}
        self.samples: list = []
        self.mismatches: list = []       # correspondence failures (model != implementation), <= 3 samples per kind
        self.mismatch_kinds: dict = {}
        self.mismatch_total = 0
        self.violations: list = []       # property oracle failures on the implementation
        self.known_hits: list = []
        self.benign: int = 0
        self.notes: list = []
        self.correspondences: set = set()
        self.oracle_checks = 0
        self.exhaustive = False
        self.extra: dict = {}
        self.known = load_known(prop_id)
        from . import gen
        gen.ORDER_RNG = random.Random(f"order:{prop_id}:{seed}")

    # ------------------------------------------------------------------ running cases
    def count(self, key: str, n: int = 1):
        self.dist[key] = self.dist.get(key, 0) + n

    def n(self, thorough: int, quick: int) -> int:
        """workload size: the quick figure, or the thorough figure times this property's scale (sized so a thorough run takes minutes)"""
        if not self.thorough:
            return quick
        scale = float(os.environ.get("VERIF_THOROUGH_SCALE", THOROUGH_SCALE.get(self.prop_id, 4)))
        return max(quick, int(thorough * scale))

    def run_cases(self, cases: list[Case], corr: str) -> list[Result]:
        """implementation and model on the same cases; disagreements are recorded under correspondence `corr`"""
        from . import impl

        self.correspondences.add(corr)
        lines = [impl.enc_case(c.op, c.args) for c in cases]
        # for the two verifiers where several rejection reasons can hold at once the model is also asked for the *set* of applicable
        # rejection classes (Model/Reasons.lean; C13.verifyRoot_reports_applicable / verifyDelegation_reports_applicable): the request
        # follows the verdict request directly so that both share the driver's signature memo
        REASON_OPS = {"vroot": "vrootR", "vdeleg": "vdelegR"}
        wire, groups, slot = [], [], []
        for c, line in zip(cases, lines):
            slot.append(len(wire))
            wire.append(line); groups.append(c.group)
            if c.op in REASON_OPS and not any(proto.has_huge_int(a) for a in c.args):      # (the reason sets are about serializable payloads)
                wire.append(REASON_OPS[c.op] + line[len(c.op):]); groups.append(c.group)
        answers = self.driver.run(wire, groups)
        model = [answers[k] for k in slot]
        reasons = [self._reason_set(answers[k + 1]) if (c.op in REASON_OPS and not any(proto.has_huge_int(a) for a in c.args)) else None for c, k in zip(cases, slot)]
        out = []
        for c, line, m, rs in zip(cases, lines, model, reasons):
            try:
                i = impl.run_case(c.op, c.args, c.enc)
            except Exception as e:  # harness problem, not the library's
                i = "X harness " + type(e).__name__ + ": " + str(e)[:200]
            self.evaluations += 1
            self.count("op:" + c.op)
            if c.tag:
                self.count("tag:" + c.tag)
            self.count("impl:" + (i if not i.startswith(("V ", "B ")) else i[0]))
            ok = answers_agree(i, m)
            if not ok and i.startswith("E ") and m.startswith("E "):
                # both reject, with different classes: harmless when several rejection reasons apply and the implementation reports
                # another applicable one (independent checks re-ordered); the property oracle still judges the class itself
                from . import schema
                acc = rs if rs is not None else schema.acceptable_outcomes(c.op, c.args)
                if acc is not None and i in acc and m in acc:
                    self.benign += 1
                    ok = True
            if rs is not None:
                # the model's verdict must be consistent with its own reason set (proved; checked here as a test of the driver), and the
                # reason set must agree with the independent oracle written from the property texts
                from . import schema
                self.count("reasons:" + (",".join(sorted(x[2:] for x in rs)) if rs != {"OK"} else "none"))
                if m not in rs:
                    self.notes.append(f"model verdict {m} outside its reason set {sorted(rs)} on {short(line, 200)}")
                    ok = False
                want = schema.acceptable_outcomes(c.op, c.args)
                if want is not None and want != rs:
                    self.correspondences.add("corr:reason-sets/model-vs-oracle")
                    kind = repr(("corr:reason-sets/model-vs-oracle", sorted(want), sorted(rs), c.tag))
                    self.mismatch_kinds[kind] = self.mismatch_kinds.get(kind, 0) + 1
                    self.mismatch_total += 1
                    if self.mismatch_kinds[kind] <= 3:
                        self.mismatches.append({"corr": "corr:reason-sets/model-vs-oracle", "line": line, "oracle": sorted(want), "model": sorted(rs), "tag": c.tag})
            if m.startswith("X ") or i.startswith("X "):
                self.notes.append(f"protocol problem on {short(line, 200)}: impl={short(i, 80)} model={short(m, 80)}")
                ok = False
            r = Result(c, i, m, ok)
            if not ok:
                kind = (corr, i.split(" ")[0:2] if i[:1] == "E" else i[:1], m.split(" ")[0:2] if m[:1] == "E" else m[:1], c.tag)
                kind = repr(kind)
                self.mismatch_kinds[kind] = self.mismatch_kinds.get(kind, 0) + 1
                self.mismatch_total += 1
                if self.mismatch_kinds[kind] <= 3:
                    self.mismatches.append({"corr": corr, "line": line, "impl": i, "model": m, "tag": c.tag, "meta": _jsonable(c.meta), "stdout_encoding": c.enc})
            out.append(r)
            if len(self.samples) < 6 and self.rng.random() < 0.02:
                self.samples.append({"request": short(line, 400), "implementation": short(i, 120), "model": short(m, 120)})
        return out

    @staticmethod
    def _reason_set(ans: str):
        """`R A,B` -> {"E A", "E B"}; `R` (no reason applies) -> {"OK"}; anything else -> None"""
        if not ans.startswith("R"):
            return None
        names = [x for x in ans[1:].strip().split(",") if x]
        return {"E " + x for x in names} or {"OK"}

    def nontrivial_add(self, key):
        self.nontrivial.add(key)

    # ------------------------------------------------------------------ oracle results
    def violation(self, clause: str, detail: dict, signature: str = ""):
        """the property itself fails on the implementation.  `signature` identifies the failing input class
        for the known-findings file."""
        for k in self.known:
            if k["kind"] == "known" and k["match"] and k["match"] in signature:
                if k not in self.known_hits:
                    self.known_hits.append(k)
                return
        if len(self.violations) < 50:
            self.violations.append({"clause": clause, "signature": signature, "detail": _jsonable(detail)})

    # ------------------------------------------------------------------ finish
    def finish(self, proof: dict, rule: str, trusted_base: list[str], assumptions: list[str], theorems_tied: list[str]) -> int:
        wall = time.time() - self.t0
        VERIF = _out_root()
        os.makedirs(os.path.join(VERIF, "evidence"), exist_ok=True)
        os.makedirs(os.path.join(VERIF, "replays"), exist_ok=True)
        rc = 0
        lines = []
        for k in self.known_hits:
            lines.append(f"KNOWN-FINDING: property={self.prop_id} {k['text']}")
        replay_path = None
        if self.violations:
            rc = 1
            replay_path = os.path.join(VERIF, "replays", f"{self.prop_id}-{self.seed}-violation.json")
            with open(replay_path, "w") as f:
                json.dump({"property": self.prop_id, "kind": "property-violation", "seed": self.seed, "tier": self.tier,
                           "violations": self.violations[:10], "mismatch_kinds": self.mismatch_kinds, "mismatches": self.mismatches[:12],
                           "how_to_replay": f"./check {self.prop_id} --replay {replay_path}"}, f, indent=1)
            lines.append(f"VIOLATION property={self.prop_id} replay={replay_path}")
        elif self.mismatches:
            rc = 1
            replay_path = os.path.join(VERIF, "replays", f"{self.prop_id}-{self.seed}-correspondence.json")
            with open(replay_path, "w") as f:
                json.dump({"property": self.prop_id, "kind": "correspondence-broken", "seed": self.seed, "tier": self.tier,
                           "broken_correspondences": sorted({m["corr"] for m in self.mismatches}),
                           "theorems_no_longer_tied_to_code": theorems_tied,
                           "mismatch_kinds": self.mismatch_kinds,
                           "mismatches": self.mismatches[:30],
                           "oracle_checks_without_failure": self.oracle_checks,
                           "how_to_replay": f"./check {self.prop_id} --replay {replay_path}"}, f, indent=1)
            lines.append(f"VIOLATION property={self.prop_id} replay={replay_path} no-failing-input-found")
        cov = {
            "obligations": proof["obligations"],
            "discharged": proof["discharged"],
            "checker_cmd": proof["checker_cmd"],
            "trusted_base": trusted_base,
            "theorems": proof["theorems"],
            "evaluations": self.evaluations,
            "distinct_nontrivial": len(self.nontrivial),
            "rule": rule,
            "samples": self.samples[:6] or [{"note": "no sample drawn"}],
            "traces_validated_against_impl": self.evaluations,
            "correspondences_checked": sorted(self.correspondences),
            "correspondence_mismatches": self.mismatch_total,
            "oracle_evaluations": self.oracle_checks,
            "benign_order_differences": self.benign,
            "distribution": dict(sorted(self.dist.items())),
            "exhaustive": self.exhaustive,
            "lean_build_s": proof.get("build_s"),
            "notes": self.notes[:20],
        }
        cov.update(self.extra)
        if "leanchecker_s" in proof:
            cov["leanchecker_s"] = proof["leanchecker_s"]
        ev = {
            "property_id": self.prop_id, "tier": self.tier, "seed": self.seed, "level": "proof",
            "coverage": cov, "assumptions": assumptions, "wall_s": round(wall, 2),
            "violations": len(self.violations) + (1 if (self.mismatches and not self.violations) else 0),
        }
        with open(os.path.join(VERIF, "evidence", self.prop_id + ".json"), "w") as f:
            json.dump(ev, f, indent=1)
        for ln in lines:
            print(ln)
        print(f"{self.prop_id} {self.tier} seed={self.seed}: {proof['discharged']}/{proof['obligations']} theorems audited, "
              f"{self.evaluations} cases, {len(self.nontrivial)} distinct non-trivial, {self.mismatch_total} mismatches, "
              f"{len(self.violations)} violations, {wall:.1f}s", file=sys.stderr if rc == 0 else sys.stdout)
        return rc


def _out_root() -> str:
    """evidence/ and replays/ live in /verif when the check judges /repo; a run pointed at another checkout (CCT_REPO: tools/try_mutant.py, try_harmless.py)
    writes them to a scratch directory instead, so that committed evidence only ever comes from /repo itself"""
    repo = os.environ.get("CCT_REPO")
    if os.environ.get("VERIF_OUT"):
        return os.environ["VERIF_OUT"]
    if repo and os.path.realpath(repo) != os.path.realpath("/repo"):
        import tempfile
        return os.path.join(tempfile.gettempdir(), "cctv-out", os.path.basename(os.path.normpath(repo)))
    return VERIF


def _jsonable(x):
    try:
        json.dumps(x)
        return x
    except Exception:
        if isinstance(x, dict):
            return {str(k): _jsonable(v) for k, v in x.items()}
        if isinstance(x, (list, tuple)):
            return [_jsonable(v) for v in x]
        return repr(x)[:500]


def load_known(prop_id: str) -> list[dict]:
    """KNOWN_FINDINGS.txt lines:  known: property=C02 match=<signature substring> <text>
                                   fixed: property=C13 <commit> <text>"""
    out = []
    f = os.path.join(VERIF, "KNOWN_FINDINGS.txt")
    if not os.path.exists(f):
        return out
    for line in open(f, encoding="utf-8"):
        line = line.strip()
        if not line or line.startswith("#"):
            continue
        kind, _, rest = line.partition(":")
        rest = rest.strip()
        if f"property={prop_id} " not in rest + " ":
            continue
        match = ""
        toks = rest.split(" ")
        for t in toks:
            if t.startswith("match="):
                match = t[len("match="):]
        text = " ".join(t for t in toks if not t.startswith(("property=", "match=")))
        out.append({"kind": kind.strip(), "match": match, "text": text})
    return out
