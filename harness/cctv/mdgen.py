"""Valid delegating metadata documents and every single-fault mutation of them at every JSON path."""
from __future__ import annotations

import copy

from . import gen, proto

TIMESTAMPS_GOOD = ["2020-07-13T05:46:45Z", "1999-12-31T23:59:59Z", "0001-01-01T00:00:00Z", "9999-12-31T23:59:59Z", "2020-02-29T12:00:00Z",
                   "2000-02-29T00:00:00Z", "2020-1-1T1:1:1Z", "2020-01-01t00:00:00z", "2020-12- 5T00:00:00Z", "٢٠٢٠-01-01T00:00:00Z", "2020-01-1٥T0٣:0٤:0٥Z",
                   "2020-01-01T٣:٤:٥Z", "２０２０-01-01T00:00:00Z"]
TIMESTAMPS_BAD = ["", "2020", "2020-07-13", "2020-07-13T05:46:45", "2020-07-13 05:46:45Z", "2020-07-13T05:46:45Z ", " 2020-07-13T05:46:45Z", "2020-07-13T05:46:45Z\n",
                  "2020-07-13T05:46:45ZZ", "2020-07-13T05:46:45+00:00", "2020-07-13T05:46:45.000Z", "2021-02-29T00:00:00Z", "1900-02-29T00:00:00Z", "2020-02-30T00:00:00Z",
                  "2020-04-31T00:00:00Z", "2020-13-01T00:00:00Z", "2020-00-10T00:00:00Z", "2020-01-00T00:00:00Z", "2020-01-32T00:00:00Z", "2020-01-01T24:00:00Z",
                  "2020-01-01T00:60:00Z", "2020-01-01T00:00:60Z", "2020-01-01T00:00:61Z", "2020-01-01T00:00:62Z", "0000-01-01T00:00:00Z", "10000-01-01T00:00:00Z",
                  "020-01-01T00:00:00Z", "2020-001-01T00:00:00Z", "2020-01-001T00:00:00Z", "2020-01-01T000:00:00Z", "2020-٠١-01T00:00:00Z", "2020-01-٣1T00:00:00Z",
                  "2020-01-01T٢٣:00:00Z", "2020/01/01T00:00:00Z", "2020-01-01T00-00-00Z", "2020-01-01T00:00:00", "２０２０－01－01T00:00:00Z", "2020-01-01T00:00:00Ž",
                  "2020-01-01Ť 00:00:00Z", "2020-01-01T00:00:0Z0", "2020-01-01T00:00:00Z\x00", "-020-01-01T00:00:00Z", "+2020-01-01T00:00:00Z", "2020-1 -1T1:1:1Z",
                  "2020-01-01T 1:01:01Z", "2020-01-01T1 :01:01Z"]

KINDS = [None, True, False, 0, 1, -1, 2, 1.0, 1.5, 0.5, float("inf"), float("-inf"), float("nan"), -0.0, float(2**53), 10**400, -10**400, "", "root", "key_mgr", "pkg_mgr", "channeler", "x", "1",
         [], {}, ["root"], [1], {"root": 1}, {"pubkeys": [], "threshold": 1}, "2020-07-13T05:46:45Z", "ab" * 32, ["ab" * 32], "é", "\ud800"]


def valid_docs(rng, n: int) -> list[dict]:
    out = []
    for i in range(n):
        nk = rng.randint(0, 3)
        rk = [gen.key(j) for j in rng.sample(range(8), nk)]
        kk = [gen.key(j) for j in rng.sample(range(8), rng.randint(0, 2))]
        if i % 4 == 0 and rk:
            kk = [rk[0]] + [k_ for k_ in kk if k_ is not rk[0]][:1]        # one holder serving two roles: each role's list is duplicate-free, that is all the schema asks
        typ = rng.choice(["root", "key_mgr"])
        dels = {}
        if rng.random() < 0.8:
            dels["root"] = gen.delegation(rk, rng.choice([1, 1, 2, 3, True, 10**30]))
        if rng.random() < 0.8:
            dels["key_mgr"] = gen.delegation(kk, rng.choice([1, 2]))
        if rng.random() < 0.3:
            dels[gen.rand_str(rng, 5)] = gen.delegation([gen.key(9)], 1)
        md = gen.delegating_md(typ, dels, version=rng.choice([1, 2, 7, True, 2**70, None if typ != "root" else 3]),
                               timestamp=rng.choice(TIMESTAMPS_GOOD + [None] if True else []), expiration=rng.choice(TIMESTAMPS_GOOD))
        if md.get("timestamp") is None and md.get("version") is None:
            md["version"] = 1
        if rng.random() < 0.3:
            md[rng.choice(["extra", "note", "Type", ""])] = gen.rand_json(rng, 2, [5])
        env = gen.envelope(md)
        data = gen.oracle_bytes(md)
        for k in rk[: rng.randint(0, len(rk))]:
            st = rng.choice(["raw_valid", "gpg_valid", "gpg_valid_see_also", "bitflip", "raw_valid_gpg_shape"])
            e = gen.make_entry(rng, st, k, data, st.startswith("gpg"), gen.key(9))
            env["signatures"][e[0]] = e[1]
        items = list(env["signed"].items())
        rng.shuffle(items)
        env["signed"] = dict(items)
        out.append(env)
    return out


def mutations(rng, doc, per_path: int = 3, max_total: int = 400):
    """(mutated document, label) for deletion / replacement by other kinds / duplication / extra field at every path"""
    from . import mined
    out = []
    novel = mined.strs()[:12] + mined.near_ints()[:12]     # constants of the current source the pinned tree lacks (none on the unchanged tree)
    paths = [p for p in gen.json_paths(doc) if p]
    rng.shuffle(paths)
    for p in paths:
        old = gen.get_path(doc, p)
        name = ".".join("*" if not isinstance(x, str) or (len(x) == 64) else x for x in p)
        out.append((gen.del_path(doc, p), "delete:" + name))
        if old is not None:
            # null is how other tooling spells "not set": tried at every path, not sampled
            out.append((gen.set_path(doc, p, None), "replace:" + name + ":NoneType"))
        for new in rng.sample(KINDS, per_path):
            if new is not None and not proto.deep_equal(old, new):
                out.append((gen.set_path(doc, p, new), "replace:" + name + ":" + type(new).__name__))
        if isinstance(old, str) and len(old) >= 19 and old[4:5] == "-":
            for t in rng.sample(TIMESTAMPS_BAD, 4) + rng.sample(TIMESTAMPS_GOOD, 2):
                out.append((gen.set_path(doc, p, t), "timestamp:" + name))
        if isinstance(old, str) and len(old) == 64:
            for t in [old.upper(), old[:-1], old + "0", " " + old[1:], old[:-1] + "g", old.encode().hex()[:64]]:
                if t != old:
                    out.append((gen.set_path(doc, p, t), "keystring:" + name))
        if isinstance(old, list) and old:
            out.append((gen.set_path(doc, p, old + [old[0]]), "duplicate-element:" + name))
            out.append((gen.set_path(doc, p, old + [old[0].upper() if isinstance(old[0], str) else old[0]]), "duplicate-other-spelling:" + name))
        for new in (rng.sample(novel, min(2, len(novel))) if novel else []):
            if not proto.deep_equal(old, new):
                out.append((gen.set_path(doc, p, new), "replace-mined:" + name))
        if isinstance(old, dict) and p == ("signatures",):
            # what the unsigned signature map is indexed by is nobody's business as long as every *value* is a well-formed entry: an entry repeated under another
            # spelling of its index (upper case, blanks, 0x), under junk, under the empty string — the document stays well formed
            k0 = next((k_ for k_ in old if isinstance(k_, str) and len(k_) == 64), gen.key(9).hex)
            some = old.get(k0, {"signature": "ab" * 64})
            for alt in [k0.upper(), " " + k0, k0 + " ", "0x" + k0, k0[:32] + " " + k0[32:], "", "junk", k0[:-1], "\u00e9"]:
                if alt not in old:
                    out.append((gen.set_path(doc, p, {**old, k0: some, alt: some}), "signature-index-respelled:" + name))
        if isinstance(old, dict):
            out.append((gen.set_path(doc, p, {**old, "extra_field": 1}), "extra-field:" + name))
            for k in [x for x in novel if isinstance(x, str)][:3]:
                out.append((gen.set_path(doc, p, {**old, k: rng.choice([1, True, "x", {}, []])}), "extra-mined-field:" + name))
            # (an index that is not a string — in-memory signature maps can have one — is written as the string the model is shown for it)
            sk = lambda k_: k_ if isinstance(k_, str) else "\x00index:" + type(k_).__name__ + ":" + repr(k_)
            out.append((gen.set_path(doc, p, list(old.items()) and [[sk(k_), v_] for k_, v_ in old.items()]), "dict-as-pairs:" + name))
            out.append((gen.set_path(doc, p, [sk(k_) for k_ in old.keys()]), "dict-as-keylist:" + name))
        if isinstance(old, int) and not isinstance(old, bool):
            for t in [0, -1, old + 0.0 if abs(old) < 2**53 else 1.0, str(old), float("inf"), [old], old + 0.5 if abs(old) < 2**53 else 0.5]:
                out.append((gen.set_path(doc, p, t), "number:" + name + ":" + type(t).__name__))
        if len(out) > max_total:
            break
    out.append(({**doc, "extra": 1}, "extra-field:<top>"))
    out.append(([[k_, v_] for k_, v_ in doc.items() if isinstance(k_, str)], "top-as-pairs"))
    return out
