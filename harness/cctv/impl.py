"""Runs the real conda_content_trust (imported from the repository's *current working tree*) on protocol
cases and canonicalises what it did into the same answer strings the Lean driver prints."""
from __future__ import annotations

import copy
import io
import os
import sys
import tempfile

REPO = os.environ.get("CCT_REPO", "/repo")
sys.dont_write_bytecode = True
if REPO not in sys.path:
    sys.path.insert(0, REPO)

import cryptography.exceptions  # noqa: E402
from cryptography.hazmat.primitives.asymmetric import ed25519  # noqa: E402

import conda_content_trust  # noqa: E402

assert os.path.realpath(os.path.dirname(conda_content_trust.__file__)).startswith(os.path.realpath(REPO)), (
    "conda_content_trust was not imported from the repository working tree: " + conda_content_trust.__file__
)

from . import gpgshim, proto  # noqa: E402

gpgshim.install()   # before root_signing is imported: its SSLIB_AVAILABLE flag is computed at import time

from conda_content_trust import authentication, common, metadata_construction, root_signing, signing  # noqa: E402

assert root_signing.SSLIB_AVAILABLE, "GPG shim not picked up by root_signing"

_SCRATCH = None


def scratch_dir() -> str:
    global _SCRATCH
    if _SCRATCH is None:
        _SCRATCH = tempfile.mkdtemp(prefix="cctv-")
        import atexit
        import shutil

        atexit.register(lambda: shutil.rmtree(_SCRATCH, ignore_errors=True))
    return _SCRATCH


def classify(e: BaseException) -> str:
    """exception -> outcome class as the properties see it"""
    if isinstance(e, common.SignatureError):
        return "SignatureError"
    if isinstance(e, common.MetadataVerificationError):
        return "MetadataVerificationError"
    if isinstance(e, common.UnknownRoleError):
        return "UnknownRoleError"
    if isinstance(e, common.CCT_Error):
        return "CCT_Error"
    if isinstance(e, cryptography.exceptions.InvalidSignature):
        return "InvalidSignature"
    if isinstance(e, UnicodeEncodeError):
        return "UnicodeEncodeError"  # a ValueError subclass, but never a *documented* argument error: emitting text failed
    if isinstance(e, (TypeError, ValueError)):
        return "ArgError"
    if isinstance(e, OSError):
        return "OSError"
    # other built-in families by their base class: a library-defined subclass (e.g. of ImportError, KeyError) is still that family
    for base in (ImportError, KeyError, IndexError, AttributeError, OverflowError, AssertionError, RecursionError, MemoryError, LookupError, ArithmeticError, RuntimeError):
        if isinstance(e, base):
            return base.__name__
    return type(e).__name__


def materialize(v):
    """protocol-level Python value -> the object handed to the library"""
    if isinstance(v, proto.KeyObj):
        if v.private:
            return ed25519.Ed25519PrivateKey.from_private_bytes(v.raw)
        return ed25519.Ed25519PublicKey.from_public_bytes(v.raw)
    if isinstance(v, proto.Opaque):
        return v.make()
    if isinstance(v, (dict, list)):
        return copy.deepcopy(v)
    return v


class _NullBytes(io.RawIOBase):
    def writable(self):
        return True

    def write(self, b):
        return len(b)


class _FailingText:
    encoding = "utf-8"
    errors = "strict"

    def __init__(self, exc):
        self.exc = exc

    def write(self, s):
        raise self.exc

    def flush(self):
        raise self.exc

    def isatty(self):
        return False


class quiet_stdout:
    """replace sys.stdout by a sink with a chosen *encoding* (the library prints diagnostics; whether
    printing can fail depends on the encoding, which is a configuration the properties quantify over)"""

    def __init__(self, encoding: str = "utf-8"):
        self.encoding = encoding

    def __enter__(self):
        self.old = sys.stdout
        if self.encoding.startswith("broken:"):
            # a stdout that cannot take text: device full / broken pipe (OSError), closed file object (ValueError), no stdout at all (pythonw, daemons)
            kind = self.encoding.split(":", 1)[1]
            if kind == "full":
                sys.stdout = _FailingText(OSError(28, "No space left on device"))
            elif kind == "pipe":
                sys.stdout = _FailingText(BrokenPipeError(32, "Broken pipe"))
            elif kind == "closed":
                f = io.StringIO()
                f.close()
                sys.stdout = f
            else:
                sys.stdout = None
            return self
        sys.stdout = io.TextIOWrapper(io.BufferedWriter(_NullBytes()), encoding=self.encoding, errors="strict")
        return self

    def __exit__(self, *a):
        try:
            sys.stdout.flush()
        except Exception:
            pass
        sys.stdout = self.old
        return False


def _res_unit(f, *args):
    try:
        r = f(*args)
    except Exception as e:  # noqa: BLE001
        return "E " + classify(e)
    return "OK"


def _res_bool(f, *args):
    try:
        r = f(*args)
    except Exception as e:  # noqa: BLE001
        return "E " + classify(e)
    if r is True:
        return "T"
    if r is False:
        return "F"
    return "X non-bool " + repr(r)[:50]


class CallTimeout(BaseException):
    """a single library call ran longer than CALL_LIMIT seconds (BaseException: an `except Exception` in the library cannot swallow it)"""


CALL_LIMIT = float(os.environ.get("VERIF_CALL_LIMIT", "20"))
_limit = [CALL_LIMIT]       # halved after every call that ran into it (floor 0.5 s): a library that loops on a whole class of inputs must not stall the check


def _on_alarm(signum, frame):
    raise CallTimeout()


def run_case(op: str, args: list, stdout_encoding: str = "utf-8") -> str:
    """execute one protocol case against the real library; returns the canonical answer string.  A call that does not return within CALL_LIMIT seconds is
    answered `E NonTermination` (the properties demand termination; no model answer equals it, so it surfaces as a disagreement with a replayable request)."""
    import signal
    import threading
    if threading.current_thread() is not threading.main_thread():
        return _run_case(op, args, stdout_encoding)
    old = signal.signal(signal.SIGALRM, _on_alarm)
    signal.setitimer(signal.ITIMER_REAL, _limit[0])
    try:
        return _run_case(op, args, stdout_encoding)
    except CallTimeout:
        _limit[0] = max(0.5, _limit[0] / 2)
        return "E NonTermination"
    finally:
        signal.setitimer(signal.ITIMER_REAL, 0)
        signal.signal(signal.SIGALRM, old)


def _run_case(op: str, args: list, stdout_encoding: str = "utf-8") -> str:
    if op == "build":
        a = list(args)
    else:
        a = [materialize(x) if not (op in ("key", "gpg") and x is args[0]) else x for x in args]
    werror = stdout_encoding.endswith("+Werror")      # configuration: warnings promoted to errors (-W error / PYTHONWARNINGS=error / pytest filterwarnings)
    if werror:
        import warnings
        with warnings.catch_warnings():
            warnings.simplefilter("error")
            with quiet_stdout(stdout_encoding[:-len("+Werror")]):
                return _run(op, a)
    with quiet_stdout(stdout_encoding):
        return _run(op, a)


def _run(op: str, a: list) -> str:
    if op == "ser":
        try:
            return "B " + common.canonserialize(a[0]).hex()
        except Exception as e:  # noqa: BLE001
            return "E " + classify(e)
    if op == "parse":
        fn = os.path.join(scratch_dir(), "parse.json")
        with open(fn, "wb") as f:
            f.write(a[0])
        try:
            v = common.load_metadata_from_file(fn)
        except Exception as e:  # noqa: BLE001
            return "E " + classify(e)
        return "V " + proto.enc(v)
    if op == "check":
        return _res_unit(getattr(common, "checkformat_" + a[0]), a[1])
    if op == "is":
        return _res_bool(getattr(common, "is_" + a[0]), a[1])
    if op == "vsig":
        return _res_unit(authentication.verify_signature, a[0], a[1], a[2])
    if op == "vgpg":
        return _res_unit(authentication.verify_gpg_signature, a[0], a[1], a[2])
    if op == "vsignable":
        return _res_unit(authentication.verify_signable, a[0], a[1], a[2], a[3])
    if op == "vdeleg":
        return _res_unit(authentication.verify_delegation, a[0], a[1], a[2], a[3])
    if op == "vroot":
        return _res_unit(authentication.verify_root, a[0], a[1])
    if op == "wrap":
        try:
            return "V " + proto.enc(signing.wrap_as_signable(a[0]))
        except Exception as e:  # noqa: BLE001
            return "E " + classify(e)
    if op == "sign":
        try:
            signing.sign_signable(a[0], a[1])
        except Exception as e:  # noqa: BLE001
            return "E " + classify(e)
        return "V " + proto.enc(a[0])
    if op == "gpg":
        # the library's GPG signing path with the signer's outputs fixed by the case: gpg <fn> <sslib> <other_headers> <signature> <q> <args...>
        fn_, sslib, oh, sg, q = a[:5]
        rest = a[5:]
        gpgshim.CANNED = (oh, sg, q)
        old = root_signing.SSLIB_AVAILABLE
        root_signing.SSLIB_AVAILABLE = bool(sslib)
        try:
            if fn_ == "dict":
                r = root_signing.sign_root_metadata_dict_via_gpg(rest[0], rest[1])
                return "V " + proto.enc(r)
            if fn_ == "file":
                path = os.path.join(scratch_dir(), "gpgfile.json")
                if rest[0] is None:
                    if os.path.exists(path):
                        os.unlink(path)
                else:
                    with open(path, "wb") as f:
                        f.write(rest[0])
                root_signing.sign_root_metadata_via_gpg(path, rest[1])
                with open(path, "rb") as f:
                    return "B " + f.read().hex()
            if fn_ == "via":
                return "V " + proto.enc(root_signing.sign_via_gpg(rest[0], rest[1], rest[2]))
            if fn_ == "fetch":
                return "V " + proto.enc(root_signing.fetch_keyval_from_gpg(rest[0]))
            return "X bad-fn"
        except Exception as e:  # noqa: BLE001
            return "E " + classify(e)
        finally:
            gpgshim.CANNED = None
            root_signing.SSLIB_AVAILABLE = old
    if op == "signrepofile":
        fn = os.path.join(scratch_dir(), "repodata.json")
        from . import gen as _gen, jsontext as _jt
        if isinstance(a[0], bytes):
            text = a[0]
        elif len(a) > 2 and a[2] is not None:
            # the same document in another layout (member order as given, random whitespace / escapes): the result must not depend on it
            import random as _random
            text = _jt.rand_text(_random.Random(a[2]), a[0], float_variants=False).encode("utf-8", "surrogatepass")
        else:
            text = _gen.oracle_bytes(a[0])
        with open(fn, "wb") as f:
            f.write(text)
        try:
            signing.sign_all_in_repodata(fn, a[1])
        except Exception as e:  # noqa: BLE001
            return "E " + classify(e)
        with open(fn, "rb") as f:
            return "B " + f.read().hex()
    if op == "build":
        import datetime as _dt

        from conda_content_trust import metadata_construction as mc

        which, now_a, now_b, params = a[0], a[1], a[2], a[3]
        readings = [now_a, now_b]

        class FakeDT(_dt.datetime):
            """the clock, however the library reads it: utcnow(), now(tz), today()"""
            @classmethod
            def utcnow(cls):
                return readings.pop(0) if readings else now_b

            @classmethod
            def now(cls, tz=None):
                r = readings.pop(0) if readings else now_b
                return r if tz is None else r.replace(tzinfo=_dt.timezone.utc).astimezone(tz)

            @classmethod
            def today(cls):
                return readings.pop(0) if readings else now_b

        patched = [m for m in (common, mc) if getattr(m, "datetime", None) is _dt.datetime]      # wherever the library bound the class
        for m in patched:
            m.datetime = FakeDT
        # the environment is part of the configuration the property quantifies over: whatever variables the library's source mentions (none on the pinned tree)
        # are set, for part of the calls, to values a build system might export (flags, epochs, paths)
        global _ENV_NAMES
        if _ENV_NAMES is None:
            _ENV_NAMES = sorted(library_env_vars())
        saved_env = {}
        if _ENV_NAMES:
            pick = sum(map(ord, repr(sorted(params.items(), key=lambda kv: kv[0])))) % 8
            val = [None, None, "1", "0", "1500000000", "315532800", "true", "4102444800"][pick]
            if val is not None:
                for n_ in _ENV_NAMES:
                    saved_env[n_] = os.environ.get(n_)
                    os.environ[n_] = val
        try:
            kw = {k: materialize(v) for k, v in params.items() if not (isinstance(v, proto.Opaque) and v.tag == 99)}
            f = mc.build_delegating_metadata if which == "delegating" else mc.build_root_metadata
            try:
                return "V " + proto.enc(f(**kw))
            except Exception as e:  # noqa: BLE001
                return "E " + classify(e)
        finally:
            for m in patched:
                m.datetime = _dt.datetime
            for n_, v_ in saved_env.items():
                if v_ is None:
                    os.environ.pop(n_, None)
                else:
                    os.environ[n_] = v_
    if op == "key":
        fn, rest = a[0], a[1:]
        C, P = common.PrivateKey, common.PublicKey
        table = {"priv_from_bytes": C.from_bytes, "pub_from_bytes": P.from_bytes, "priv_from_hex": C.from_hex, "pub_from_hex": P.from_hex,
                 "priv_to_bytes": C.to_bytes, "pub_to_bytes": P.to_bytes, "priv_to_hex": C.to_hex, "pub_to_hex": P.to_hex,
                 "public_of": lambda k: k.public_key(), "priv_equiv": C.is_equivalent_to, "pub_equiv": P.is_equivalent_to}
        try:
            r = table[fn](*rest)
        except Exception as e:  # noqa: BLE001
            return "E " + classify(e)
        if fn.endswith("_equiv"):
            return "T" if r is True else ("F" if r is False else "X non-bool")
        return "V " + enc_result(r)
    raise ValueError("unknown op " + op)


def enc_result(r) -> str:
    """encode a value returned by the library (key objects by their raw bytes)"""
    from cryptography.hazmat.primitives import serialization as ser

    if isinstance(r, ed25519.Ed25519PrivateKey):
        return "P" + r.private_bytes(ser.Encoding.Raw, ser.PrivateFormat.Raw, ser.NoEncryption()).hex()
    if isinstance(r, ed25519.Ed25519PublicKey):
        return "K" + r.public_bytes(ser.Encoding.Raw, ser.PublicFormat.Raw).hex()
    return proto.enc(r)


def enc_case(op: str, args: list) -> str:
    """protocol line for a case"""
    if op in ("check", "is"):
        return f"{op} {args[0]} {proto.enc(args[1])}"
    if op == "parse":
        return "parse " + bytes(args[0]).hex()
    if op == "key":
        return f"key {args[0]} " + " ".join(proto.enc(x) for x in args[1:])
    if op == "gpg":
        fn_, sslib, oh, sg, q = args[:5]
        rest = list(args[5:])
        head = f"gpg {fn_} {'t' if sslib else 'f'} {proto.enc(oh)} {proto.enc(sg)} {proto.enc(q)}"
        if fn_ == "file":
            return head + " " + ("-" if rest[0] is None else "x" + bytes(rest[0]).hex()) + " " + proto.enc(rest[1])
        if fn_ == "via":
            return head + " " + proto.enc(rest[0]) + " " + proto.enc(rest[1]) + " " + ("t" if rest[2] else "f")
        return head + " " + " ".join(proto.enc(x) for x in rest)
    if op == "signrepofile":
        return " ".join([op] + [proto.enc(x) for x in args[:2]])      # args[2] (layout of the input file) is not part of the value
    if op == "build":
        which, a, b, params = args
        # the library reads the clock once per defaulted field, in call order; the model takes one reading per purpose
        if which == "delegating":
            first, second = a, (b if params.get("timestamp") is None else a)          # (timestamp reading, expiration reading)
        else:
            first, second = a, (b if params.get("root_expiration") is None else a)    # (expiration reading, timestamp reading)
        clock = " ".join(f"{d.year} {d.month} {d.day} {d.hour} {d.minute} {d.second}" for d in (first, second))
        order = (["metadata_type", "delegations", "version", "timestamp", "expiration"] if which == "delegating" else
                 ["root_version", "root_pubkeys", "root_threshold", "key_mgr_pubkeys", "key_mgr_threshold", "root_timestamp", "root_expiration"])
        defaults = {"version": 1}
        optional = {"delegations", "timestamp", "expiration", "root_timestamp", "root_expiration"}
        vals = [proto.Opaque(99) if (k in optional and params.get(k, 0) is None) else params.get(k, defaults.get(k, proto.Opaque(99))) for k in order]
        return f"build {which} {clock} " + " ".join(proto.enc(v) for v in vals)
    return " ".join([op] + [proto.enc(x) for x in args])


_ENV_NAMES = None


def library_env_vars() -> set:
    """names of the environment variables the library's source mentions (os.environ[...], os.environ.get(...), os.getenv(...)): they are part of
    the configuration space the properties quantify over, so some runs switch all of them on"""
    import re
    names = set()
    pkg_dir = os.path.dirname(common.__file__)
    for fn in sorted(os.listdir(pkg_dir)):
        if fn.endswith(".py"):
            src = open(os.path.join(pkg_dir, fn), encoding="utf-8", errors="replace").read()
            names |= set(re.findall(r"""(?:environ(?:\.get)?\s*[\[(]|getenv\s*\()\s*["']([A-Za-z_][A-Za-z0-9_]*)["']""", src))
    return names - {"PATH", "HOME", "GNUPGHOME"}
