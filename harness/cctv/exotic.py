"""Calls on arguments that are legal Python but outside the JSON value universe of the model: instances of standard-library and user *subclasses* of
dict / list / str / int (OrderedDict, defaultdict, IntEnum, ...), tuples, mapping proxies.  No model verdict exists for them; what the property C12 demands is
checked directly: the outcome of a call is the same at any point of any history as in a fresh process where it is the first call."""
from __future__ import annotations

import collections
import enum
import hashlib
import types


class MyDict(dict):
    pass


class MyList(list):
    pass


class MyStr(str):
    pass


class MyInt(int):
    pass


class Level(enum.IntEnum):
    ONE = 1
    TWO = 2


def _values():
    return {
        "ordereddict": collections.OrderedDict([("b", 1), ("a", [1, 2])]),
        "defaultdict": collections.defaultdict(int, {"x": 1}),
        "dict-subclass": MyDict(a=1, b={"c": 2}),
        "list-subclass": MyList([1, "x", {"k": None}]),
        "str-subclass": MyStr("payload"),
        "int-subclass": MyInt(7),
        "intenum": Level.TWO,
        "nested-ordereddict": {"outer": collections.OrderedDict([("z", 1), ("y", 2)])},
        "nested-str-subclass-key": {MyStr("k"): 1},
        "tuple": (1, [2, 3]),
        "mappingproxy": types.MappingProxyType({"a": 1}),
        "counter": collections.Counter("aab"),
        "plain-dict": {"a": 1},
    }


def labels() -> list:
    out = []
    for v in _values():
        for call in ("wrap", "is_signable", "checkformat_signable", "sign", "verify", "serialize"):
            out.append(f"{call}:{v}")
    for t in ("intenum", "int-subclass", "bool"):
        out.append("verify-threshold:" + t)
    for n in ("str-subclass",):
        out.append("delegation-role:" + n)
    return out


def run(label: str) -> str:
    """outcome class (or a digest of the returned value) of one labelled call"""
    from . import gen, impl

    call, which = label.split(":", 1)
    k = gen.key(2)
    try:
        with impl.quiet_stdout():
            if call == "verify-threshold":
                env = gen.sign_env(gen.envelope({"a": 1}), [k], False)
                thr = {"intenum": Level.ONE, "int-subclass": MyInt(1), "bool": True}[which]
                impl.authentication.verify_signable(env, [k.hex], thr)
                return "OK"
            if call == "delegation-role":
                t = gen.envelope(gen.delegating_md("root", {"role": gen.delegation([k], 1)}))
                u = gen.sign_env(gen.envelope({"a": 1}), [k], False)
                impl.authentication.verify_delegation(MyStr("role"), u, t)
                return "OK"
            v = _values()[which]
            if call == "wrap":
                r = impl.signing.wrap_as_signable(v)
                return "V " + type(r).__name__ + ":" + type(r.get("signed")).__name__
            env = {"signatures": {}, "signed": v}
            if call == "is_signable":
                return "T" if impl.common.is_signable(env) else "F"
            if call == "checkformat_signable":
                impl.common.checkformat_signable(env)
                return "OK"
            if call == "serialize":
                return "B " + hashlib.sha256(impl.common.canonserialize(v)).hexdigest()[:16]
            if call == "sign":
                impl.signing.sign_signable(env, impl.common.PrivateKey.from_bytes(k.seed))
                return "V " + ",".join(sorted(env["signatures"]))[:16]
            if call == "verify":
                try:
                    data = impl.common.canonserialize(v)
                    env["signatures"][k.hex] = gen.raw_entry(k, data)
                except Exception:  # noqa: BLE001
                    pass
                impl.authentication.verify_signable(env, [k.hex], 1)
                return "OK"
    except Exception as e:  # noqa: BLE001
        return "E " + impl.classify(e)
    return "X unknown"
