"""./check <ID> --tier quick|thorough [--seed N]"""
from __future__ import annotations

import argparse
import importlib
import os
import sys
import traceback


def main(argv=None) -> int:
    ap = argparse.ArgumentParser()
    ap.add_argument("prop")
    ap.add_argument("--tier", default=os.environ.get("VERIF_TIER", "quick"), choices=["quick", "thorough"])
    ap.add_argument("--seed", type=int, default=int(os.environ.get("VERIF_SEED", "0")))
    ap.add_argument("--replay", default=None)
    a = ap.parse_args(argv)
    if a.replay:
        # re-run exactly what a replay file recorded: same seed and tier, and first of all every recorded request on implementation and model
        import json
        from . import proto
        try:
            rp = json.load(open(a.replay))
        except Exception as e:  # noqa: BLE001
            print("cannot read replay file: " + repr(e), file=sys.stderr)
            return 2
        a.seed, a.tier = rp.get("seed", a.seed), rp.get("tier", a.tier)
        lines = [m for m in rp.get("mismatches", []) if isinstance(m, dict) and m.get("line")]
        if lines:
            from . import impl
            drv = proto.Driver()
            for m in lines:
                d = proto.dec_line(m["line"]) if not m["line"].endswith(")") or "...(+" not in m["line"] else None
                model_now = drv.ask([m["line"]])[0] if "...(+" not in m["line"] else "(request was truncated in the replay file)"
                impl_now = impl.run_case(d[0], d[1], m.get("stdout_encoding", "utf-8") if m.get("stdout_encoding") != "mixed" else "utf-8") if d else "(not directly replayable: rerunning the seeded check)"
                print(f"REPLAY {m.get('corr', '')} [{m.get('tag', '')}]\n  request: {m['line'][:300]}\n  implementation now: {impl_now[:200]}\n  model now:          {model_now[:200]}\n  recorded: impl={str(m.get('impl'))[:120]} model={str(m.get('model'))[:120]}")
    # watchdog: a check that has not finished within its budget is an infrastructure problem (exit 2), never left hanging
    import faulthandler
    import threading
    budget = float(os.environ.get("VERIF_CHECK_LIMIT", "14400" if a.tier == "thorough" else "1500"))

    def _expired():
        print(f"INFRASTRUCTURE ERROR (not a violation): check {a.prop} exceeded its time budget of {budget:.0f} s; thread stacks follow", file=sys.stderr)
        faulthandler.dump_traceback(file=sys.stderr, all_threads=True)
        sys.stderr.flush()
        os._exit(2)
    wd = threading.Timer(budget, _expired)
    wd.daemon = True
    wd.start()

    from . import leangate
    from .framework import Check

    try:
        proof = leangate.gate(a.prop, thorough=(a.tier == "thorough"))
    except leangate.InfraError as e:
        print("INFRASTRUCTURE ERROR (not a violation): " + str(e), file=sys.stderr)
        return 2
    ck = None
    try:
        mod = importlib.import_module("cctv.props." + a.prop.lower())
        missing = [t for t in getattr(mod, "THEOREMS", []) if f"CCT.{a.prop}.{t}" not in proof["theorems"]]
        if missing:
            print(f"INFRASTRUCTURE ERROR (not a violation): theorems named by the check do not exist in CCT/Props/{a.prop}.lean: {missing}", file=sys.stderr)
            return 2
        ck = Check(a.prop, a.tier, a.seed)
        if a.replay:
            ck.extra["replay_of"] = a.replay
        mod.run(ck)
        return ck.finish(proof, mod.RULE, getattr(mod, "TRUSTED", TRUSTED_DEFAULT), getattr(mod, "ASSUMPTIONS", ASSUMPTIONS_DEFAULT),
                         [f"CCT.{a.prop}.{t}" for t in getattr(mod, "THEOREMS", [])])
    except Exception as e:
        tb = traceback.format_exc()
        repo = os.path.realpath(os.environ.get("CCT_REPO", "/repo"))
        frames = traceback.extract_tb(e.__traceback__)
        in_repo = [f for f in frames if os.path.realpath(f.filename).startswith(repo + os.sep)]
        if in_repo:
            # the library raised where the harness expected it to work (a behaviour change no oracle anticipated): reported as a violation
            # whose replay is the call chain; no input was minimised
            import json
            from .framework import _out_root
            VERIF = _out_root()
            os.makedirs(os.path.join(VERIF, "replays"), exist_ok=True)
            rp = os.path.join(VERIF, "replays", f"{a.prop}-{a.seed}-unexpected-exception.json")
            json.dump({"property": a.prop, "kind": "implementation-raised-unexpectedly", "exception": repr(e)[:500], "traceback": tb[-3000:],
                       "correspondence": "harness step that calls the library on a valid input", "seed": a.seed}, open(rp, "w"), indent=1)
            print(f"VIOLATION property={a.prop} replay={rp} no-failing-input-found")
            return 1
        traceback.print_exc()
        if ck is not None and (ck.violations or ck.mismatches):
            # the harness tripped over something after the implementation had already been seen to violate the property / to differ from the model
            # (typically while describing the unexpected behaviour): what was found is reported; the crash is recorded with it
            ck.notes.append("harness exception after the findings below were recorded: " + repr(e)[:300])
            try:
                return ck.finish(proof, mod.RULE, getattr(mod, "TRUSTED", TRUSTED_DEFAULT), getattr(mod, "ASSUMPTIONS", ASSUMPTIONS_DEFAULT),
                                 [f"CCT.{a.prop}.{t}" for t in getattr(mod, "THEOREMS", [])])
            except Exception:  # noqa: BLE001
                traceback.print_exc()
        print("INFRASTRUCTURE ERROR (harness crashed; not a violation)", file=sys.stderr)
        return 2


TRUSTED_DEFAULT = [
    "Lean 4.33.0 kernel (and leanchecker in the thorough tier)",
    "axioms: subset of {propext, Classical.choice, Quot.sound}, audited per theorem on every run; no native_decide / bv_decide / sorry / user axioms",
    "hand-written Lean model of the Python code (lean/CCT/Model), tied to /repo by this run's correspondence check only as far as its generators reach",
    "harness: generators, canonicalisation of observables (TypeError/ValueError merged; messages, stdout text never compared), independent oracles",
    "CPython 3.12.1 builtins (json, bytes.fromhex, strptime, float repr) as modelled in CCT/Model/Py.lean, Json.lean, Time.lean",
    "cryptography 50.0.1 / OpenSSL Ed25519 and SHA-256 as the primitives; the Lean RFC 8032 / FIPS 180-4 reference is unverified and cross-checked",
]
ASSUMPTIONS_DEFAULT = [
    "cryptographic primitives enter theorems only through the three laws of the Crypto structure (lengths, correctness); no unforgeability or collision resistance is assumed",
    "JSON values are those a parser of well-formed JSON text can return (no adjacent high+low surrogate pair inside a str, ints up to 4300 digits)",
]

if __name__ == "__main__":
    sys.exit(main())
