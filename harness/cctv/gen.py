"""Seeded generators: JSON values, strings by class, keys, signature entries in every state, envelopes,
delegating metadata.  Every random choice derives from the `random.Random` passed in."""
from __future__ import annotations

import hashlib
import struct

from cryptography.hazmat.primitives import serialization
from cryptography.hazmat.primitives.asymmetric import ed25519

# ---------------------------------------------------------------- strings

STR_CLASSES = [
    "ascii", "short_escape", "c0", "del", "latin1", "bmp", "astral", "lone_high", "lone_low",
    "high_then_nonlow", "nonchar", "empty", "digits", "quote_bsl",
]


def rand_char(rng, cls: str) -> str:
    if cls == "ascii":
        return chr(rng.randint(0x20, 0x7E))
    if cls == "short_escape":
        return rng.choice('"\\/\b\f\n\r\t')
    if cls == "c0":
        return chr(rng.randint(0, 0x1F))
    if cls == "del":
        return "\x7f"
    if cls == "latin1":
        return chr(rng.randint(0x80, 0xFF))
    if cls == "bmp":
        while True:
            c = rng.randint(0x100, 0xFFFF)
            if not 0xD800 <= c <= 0xDFFF:
                return chr(c)
    if cls == "astral":
        return chr(rng.choice([0x10000, 0x10FFFF, 0x1F600, rng.randint(0x10000, 0x10FFFF)]))
    if cls == "lone_high":
        return chr(rng.choice([0xD800, 0xDBFF, rng.randint(0xD800, 0xDBFF)]))
    if cls == "lone_low":
        return chr(rng.choice([0xDC00, 0xDFFF, rng.randint(0xDC00, 0xDFFF)]))
    if cls == "nonchar":
        return rng.choice(["￾", "￿", "﷐", "\U0001fffe"])
    if cls == "digits":
        return rng.choice("0123456789٣３")
    if cls == "quote_bsl":
        return rng.choice('"\\')
    return "a"


def fix_pairs(s: str) -> str:
    """remove adjacent (high, low) surrogate pairs: no JSON parser can return them (a pair in the text
    decodes to one astral character), so they are outside the value domain of the properties"""
    out = []
    for c in s:
        if out and 0xD800 <= ord(out[-1]) <= 0xDBFF and 0xDC00 <= ord(c) <= 0xDFFF:
            out.append("x")
        out.append(c)
    return "".join(out)


def rand_str(rng, maxlen: int = 8, wf: bool = True, stats: dict | None = None) -> str:
    from . import mined
    if mined.strs() and rng.random() < 0.12:         # literals the current source has and the pinned tree lacks (empty on the unchanged tree)
        if stats is not None:
            stats["mined"] = stats.get("mined", 0) + 1
        s = rng.choice(mined.strs())
        r = rng.random()
        return s if r < 0.6 else (s + rand_char(rng, "ascii")) if r < 0.8 else (rand_char(rng, "ascii") + s)
    cls = rng.choice(STR_CLASSES)
    if stats is not None:
        stats[cls] = stats.get(cls, 0) + 1
    if cls == "empty":
        return ""
    if cls == "high_then_nonlow":
        s = rand_char(rng, "lone_high") + rng.choice(["a", "\\", "u", "\udbff", "\ud800"])
    else:
        n = rng.randint(1, maxlen)
        s = "".join(rand_char(rng, cls if rng.random() < 0.7 else rng.choice(STR_CLASSES[:11])) for _ in range(n))
    return fix_pairs(s) if wf else s


# ---------------------------------------------------------------- numbers

INT_EDGES = [0, 1, -1, 2, 10, 255, 2**31 - 1, 2**31, -2**31, 2**53 - 1, 2**53, 2**53 + 1, 2**63, -2**63, 2**64,
             10**18, 10**30, -10**30]

FLOAT_EDGES = [0.0, -0.0, 1.0, -1.0, 0.5, 1.5, 0.1, 1e16, 1e22, 1e23, 1e-5, 1e-7, 5e-324, 2.2250738585072014e-308,
               1.7976931348623157e308, float(2**53), 123456789012345680.0, float("nan"), float("inf"), float("-inf"),
               3.141592653589793, 1e15, 1e17, 0.0001, 0.00001]


def rand_int(rng) -> int:
    from . import mined
    if mined.ints() and rng.random() < 0.15:
        return rng.choice(mined.near_ints())
    r = rng.random()
    if r < 0.4:
        return rng.choice(INT_EDGES)
    if r < 0.8:
        return rng.randint(-1000, 1000)
    if r < 0.97:
        return rng.randint(-10**40, 10**40)
    nd = rng.choice([100, 1000, 4299, 4300])
    return rng.choice([1, -1]) * (10 ** (nd - 1) + rng.randint(0, 10**20))


def rand_float(rng) -> float:
    r = rng.random()
    if r < 0.5:
        return rng.choice(FLOAT_EDGES)
    if r < 0.8:
        return struct.unpack(">d", struct.pack(">Q", rng.getrandbits(64)))[0]
    return rng.uniform(-1e6, 1e6)


# ---------------------------------------------------------------- JSON values

def rand_json(rng, depth: int = 4, budget: list | None = None, wf: bool = True, stats: dict | None = None):
    """random JSON value; `budget` is a one-element list with the remaining node count"""
    if budget is None:
        budget = [40]
    budget[0] -= 1
    kinds = ["null", "bool", "int", "float", "str"]
    if depth > 0 and budget[0] > 0:
        kinds += ["arr", "obj", "arr", "obj", "obj"]
    k = rng.choice(kinds)
    if stats is not None:
        stats["node:" + k] = stats.get("node:" + k, 0) + 1
    if k == "null":
        return None
    if k == "bool":
        return rng.random() < 0.5
    if k == "int":
        return rand_int(rng)
    if k == "float":
        return rand_float(rng)
    if k == "str":
        return rand_str(rng, wf=wf, stats=stats)
    if k == "arr":
        n = rng.choice([0, 1, 2, 3, 5])
        return [rand_json(rng, depth - 1, budget, wf, stats) for _ in range(n) if budget[0] > 0]
    n = rng.choice([0, 1, 2, 3, 5])
    d = {}
    for _ in range(n):
        if budget[0] <= 0:
            break
        key = rand_str(rng, maxlen=4, wf=wf, stats=stats) if rng.random() < 0.6 else rng.choice(
            ["a", "b", "A", "aa", "ab", "", "z", "é", "é", "é", "10", "9", "signed", "signatures", "type"])
        d[key] = rand_json(rng, depth - 1, budget, wf, stats)
    return d


def shuffled_copy(rng, v):
    """same JSON value, every object's insertion order permuted"""
    if isinstance(v, dict):
        items = list(v.items())
        rng.shuffle(items)
        return {k: shuffled_copy(rng, x) for k, x in items}
    if isinstance(v, list):
        return [shuffled_copy(rng, x) for x in v]
    return v


def json_paths(v, prefix=()):
    """all paths (tuples of keys / indices) into a JSON value, root included"""
    yield prefix
    if isinstance(v, dict):
        for k, x in v.items():
            yield from json_paths(x, prefix + (k,))
    elif isinstance(v, (list, tuple)):
        for i, x in enumerate(v):
            yield from json_paths(x, prefix + (i,))


def get_path(v, path):
    for p in path:
        v = v[p]
    return v


def set_path(v, path, new):
    """returns a deep copy of v with the value at path replaced"""
    import copy

    v = copy.deepcopy(v)
    if not path:
        return copy.deepcopy(new)
    cur = v
    for p in path[:-1]:
        cur = cur[p]
    cur[path[-1]] = copy.deepcopy(new)
    return v


def del_path(v, path):
    import copy

    v = copy.deepcopy(v)
    cur = v
    for p in path[:-1]:
        cur = cur[p]
    del cur[path[-1]]
    return v


# ---------------------------------------------------------------- oracle-side canonical serializer

_ESC = {'"': '\\"', "\\": "\\\\", "\n": "\\n", "\r": "\\r", "\t": "\\t", "\b": "\\b", "\f": "\\f"}


def oracle_str(s: str) -> str:
    out = ['"']
    for c in s:
        o = ord(c)
        if c in _ESC:
            out.append(_ESC[c])
        elif 0x20 <= o < 0x7F:
            out.append(c)
        elif o < 0x10000:
            out.append("\\u%04x" % o)
        else:
            o -= 0x10000
            out.append("\\u%04x\\u%04x" % (0xD800 + (o >> 10), 0xDC00 + (o & 0x3FF)))
    out.append('"')
    return "".join(out)


def oracle_ser(v, lvl: int = 0) -> str:
    """the published canonical format, written from its description (not from json.dumps):
    keys sorted by code point, 2-space indent, ',' / ': ' separators, ASCII escaping"""
    if v is None:
        return "null"
    if v is True:
        return "true"
    if v is False:
        return "false"
    if isinstance(v, int):
        return str(v)
    if isinstance(v, float):
        if v != v:
            return "NaN"
        if v == float("inf"):
            return "Infinity"
        if v == float("-inf"):
            return "-Infinity"
        return repr(v)
    if isinstance(v, str):
        return oracle_str(v)
    ind = "\n" + "  " * (lvl + 1)
    if isinstance(v, (list, tuple)):
        if not v:
            return "[]"
        return "[" + ",".join(ind + oracle_ser(x, lvl + 1) for x in v) + "\n" + "  " * lvl + "]"
    if isinstance(v, dict):
        if not v:
            return "{}"
        items = sorted(v.items(), key=lambda kv: [ord(c) for c in kv[0]])
        return "{" + ",".join(ind + oracle_str(k) + ": " + oracle_ser(x, lvl + 1) for k, x in items) + "\n" + "  " * lvl + "}"
    raise TypeError(type(v))


def oracle_bytes(v) -> bytes:
    return oracle_ser(v).encode("ascii")


BOUNDARY_SIZES = [55, 56, 63, 64, 65, 111, 112, 119, 120, 127, 128, 129, 255, 256, 1023, 1024, 4095, 4096, 4097, 8192, 16384, 32768, 65535, 65536, 65537, 131072]


def sizes_of_interest() -> list:
    """byte counts at which buffers, hash blocks and length fields roll over, plus the integer constants of the current source that the pinned
    tree lacks (a block size introduced by a change) and their neighbours and small multiples"""
    from . import mined
    out = list(BOUNDARY_SIZES)
    for n in mined.ints():
        if 16 <= n <= 1 << 20:
            out += [n - 1, n, n + 1, 2 * n, 3 * n]
    return [n for n in dict.fromkeys(out) if 0 < n <= 1 << 21]


def sized_payload(n: int):
    """a JSON value whose canonical serialization is exactly n bytes long (n >= 20)"""
    base = len(oracle_bytes({"pad": ""}))
    if n < base:
        return {"pad": ""}
    return {"pad": "a" * (n - base)}


def counts_of_interest() -> list:
    """member / artifact counts at which batching, paging and progress logic rolls over, plus those the current source names (mined constants n: n, n+1, 2n, 2n+1, n/2+1)"""
    from . import mined
    out = [255, 256, 257, 1000, 1001, 1024, 1025, 2001, 4097]
    for n in mined.ints():
        if 4 <= n <= 6000:
            out += [n, n + 1, 2 * n, 2 * n + 1, n // 2, n // 2 + 1]
    return [n for n in dict.fromkeys(out) if 0 < n <= 13000]


def raw_utf8_repodata(pad: int, span: int):
    """(file bytes, value): a repodata document stored the way other tools store it — raw UTF-8, not \\u escapes — whose artifact records hold long runs of
    2-, 3- and 4-byte characters, so that every byte offset inside the runs that is a multiple of any block size falls inside a character for some `pad` in 0..2
    (a reader that decodes the file piecewise damages such a file; `span` = bytes the runs should cover)"""
    import json as _json
    per = max(1, span // 3)
    doc = {"info": {"subdir": "noarch", "pad": "p" * pad},
           "packages": {"euro-1.0-0.tar.bz2": {"name": "euro", "description": "\u20ac" * (per // 3)},
                        "mixed-1.0-0.tar.bz2": {"name": "mixed", "description": ("\u00e9\u20ac\U0001f600a" * (per // 10))}},
           "packages.conda": {"smile-1.0-0.conda": {"name": "smile", "summary": "\U0001f600" * (per // 4)}}}
    text = _json.dumps(doc, ensure_ascii=False, indent=1)
    return text.encode("utf-8"), doc


# ---------------------------------------------------------------- keys

class Key:
    def __init__(self, idx: int):
        self.idx = idx
        self.seed = hashlib.sha256(b"cctv-key-%d" % idx).digest()
        self.priv = ed25519.Ed25519PrivateKey.from_private_bytes(self.seed)
        self.pub = self.priv.public_key().public_bytes(serialization.Encoding.Raw, serialization.PublicFormat.Raw)
        self.hex = self.pub.hex()

    def sign(self, data: bytes) -> bytes:
        return self.priv.sign(data)


_KEYS: dict[int, Key] = {}


def key(i: int) -> Key:
    if i not in _KEYS:
        _KEYS[i] = Key(i)
    return _KEYS[i]


def gpg_digest(data: bytes, hdr: bytes) -> bytes:
    """RFC 4880 5.2.4, v4 signature: SHA-256(data || hashed headers || 04 ff || be32(len headers))"""
    return hashlib.sha256(data + hdr + b"\x04\xff" + struct.pack(">I", len(hdr))).digest()


def _subpacket(typ: int, body: bytes) -> bytes:
    """RFC 4880 5.2.3.1: one-, two- or five-octet length (of type octet + body), then the type octet and the body"""
    n = len(body) + 1
    if n < 192:
        ln = bytes([n])
    elif n < 8384:
        ln = bytes([((n - 192) >> 8) + 192, (n - 192) & 0xFF])
    else:
        ln = b"\xff" + struct.pack(">I", n)
    return ln + bytes([typ]) + body


def realistic_hdr(rng) -> bytes:
    """a well-formed v4 hashed area as GnuPG emits it: version, type, algorithms, two-octet length, subpackets (issuer fingerprint, creation time, and
    sometimes notation data / policy URIs long enough to need the two- or five-octet subpacket length form)"""
    created = rng.choice([rng.getrandbits(31), rng.getrandbits(30), 1, 1594619205, 0x7FFFFFFF, 0xFFFFFFFF])
    subs = [_subpacket(33, b"\x04" + bytes(rng.getrandbits(8) for _ in range(20))), _subpacket(2, struct.pack(">I", created))]
    # what a key holder's gpg.conf can add to the hashed area (RFC 4880 5.2.3.x): signature / key expiration times (long past, far ahead, zero = never),
    # issuer key id, key flags, signer's user id, trust, exportable, revocable, preferred algorithms, features, reason for revocation — some marked critical.
    # The library documents that it reads none of it: the entry is valid iff the 64-byte signature verifies over the RFC 4880 digest.
    crit = lambda t: t | (0x80 if rng.random() < 0.3 else 0)
    optional = [
        lambda: _subpacket(crit(3), struct.pack(">I", rng.choice([1, 60, 86400, 31536000, 0, 0xFFFFFFFF, rng.getrandbits(20)]))),
        lambda: _subpacket(crit(9), struct.pack(">I", rng.choice([1, 86400, 0, 0xFFFFFFFF]))),
        lambda: _subpacket(16, bytes(rng.getrandbits(8) for _ in range(8))),
        lambda: _subpacket(crit(27), bytes([rng.choice([0x01, 0x02, 0x03, 0x0C, 0x20, 0x80, 0x00])])),
        lambda: _subpacket(28, rng.choice([b"Alice <alice@example.org>", "Zo\u00eb <z@example.org>".encode(), b""])),
        lambda: _subpacket(5, bytes([rng.choice([0, 1, 60, 120, 255]), rng.choice([0, 60, 120])])),
        lambda: _subpacket(4, bytes([rng.choice([0, 1])])),
        lambda: _subpacket(7, bytes([rng.choice([0, 1])])),
        lambda: _subpacket(11, bytes([9, 8, 7, 2])),
        lambda: _subpacket(21, bytes([10, 9, 8, 11, 2])),
        lambda: _subpacket(30, bytes([rng.choice([1, 3, 7])])),
        lambda: _subpacket(crit(29), bytes([rng.choice([0, 1, 2, 3, 32])]) + b"superseded"),
        lambda: _subpacket(rng.choice([0, 1, 8, 10, 13, 19, 34, 35, 100, 110, 127]), bytes(rng.getrandbits(8) for _ in range(rng.choice([0, 1, 4, 20])))),
    ]
    for _ in range(rng.choice([0, 1, 1, 2, 3, 5])):
        subs.append(rng.choice(optional)())
    # body bytes of the long subpackets: text, or constant fills under which a reader that has lost its place in the area runs off its end
    # (0x00 / 0x01 read as tiny lengths, 0xff / 0xc0 as the introducers of the longer length forms)
    fill = rng.choice([None, None, 0, 0, 1, 2, 0xFF, 0xC0])
    def body(n):
        return bytes(rng.randrange(32, 127) for _ in range(n)) if fill is None else bytes([fill]) * n
    r = rng.random()
    if r < 0.6:
        n = rng.choice([150, 186, 187, 188, 191, 192, 193, 200, 300, 447, 448, 1000])
        name = b"note@example.org"
        subs.append(_subpacket(20, b"\x80\x00\x00\x00" + struct.pack(">HH", len(name), n) + name + body(n)))
    elif r < 0.7:
        subs.append(_subpacket(26, body(rng.choice([191, 192, 8383, 8384, 9000]))))
    if rng.random() < 0.3:
        rng.shuffle(subs)
    area = b"".join(subs)
    return bytes([4, rng.choice([0, 0, 1]), 22, 8]) + struct.pack(">H", len(area) & 0xFFFF) + area


def rand_hdr(rng) -> bytes:
    if rng.random() < 0.4:
        return realistic_hdr(rng)
    n = rng.choice([1, 2, 6, 35, 35, 35, 64, 255, 256, 300])
    h = bytes(rng.getrandbits(8) for _ in range(n))
    if rng.random() < 0.35:
        # the first octet is where a packet says which signature version it is: the neighbours of 4 (v3, v5, v6), 0 and 0xff are tried on purpose
        h = bytes([rng.choice([3, 5, 5, 6, 0, 0xFF, 2])]) + h[1:]
    return h


GPG_HDR_TYPICAL = bytes.fromhex("04001608001d162104f075dd2f6f4cb3bd76134bbb81b6ca16ef9cd58905025f0bf546")


def raw_entry(k: Key, data: bytes) -> dict:
    return {"signature": k.sign(data).hex()}


def gpg_entry(k: Key, data: bytes, hdr: bytes, see_also: str | None = None) -> dict:
    e = {"other_headers": hdr.hex(), "signature": k.sign(gpg_digest(data, hdr)).hex()}
    if see_also is not None:
        e["see_also"] = see_also
    return e


ENTRY_STATES = [
    "absent", "raw_valid", "raw_valid_gpg_shape", "gpg_valid", "gpg_valid_see_also", "other_payload", "misfiled",
    "bitflip", "truncated", "upper_sig", "extra_field", "nondict", "alt_upper", "alt_space", "alt_0x",
    "alt_inner_space", "alt_nonascii_digit", "alt_mixed_case", "gpg_bad_header", "gpg_other_payload", "gpg_bad_see_also",
    "gpg_empty_header", "zero_sig", "bare_sig_string", "sig_in_list", "nonascii_value", "scalar_plus_order", "empty_dict"]


def make_entry(rng, state: str, k: Key, data: bytes, gpg: bool, other: Key):
    """returns (map_key, entry_value) or None for `absent`.  `data` = canonical bytes of the payload."""
    hdr = GPG_HDR_TYPICAL if rng.random() < 0.5 else rand_hdr(rng)
    if state == "absent":
        return None
    if state == "raw_valid":
        return k.hex, raw_entry(k, data)
    if state == "raw_valid_gpg_shape":
        return k.hex, {"other_headers": hdr.hex(), "signature": k.sign(data).hex()}
    if state == "gpg_valid":
        return k.hex, gpg_entry(k, data, hdr)
    if state == "gpg_valid_see_also":
        if rng.random() < 0.7:
            hdr = realistic_hdr(rng)
        return k.hex, gpg_entry(k, data, hdr, hdr[9:29].hex() if (hdr[7:9] == b"\x21\x04" and len(hdr) >= 29 and rng.random() < 0.6) else "f075dd2f6f4cb3bd76134bbb81b6ca16ef9cd589")
    if state == "other_payload":
        e = raw_entry(k, data + b" ") if not gpg else gpg_entry(k, data + b" ", hdr)
        return k.hex, e
    if state == "gpg_other_payload":
        return k.hex, gpg_entry(k, b"x" + data, hdr)
    if state == "misfiled":
        e = raw_entry(other, data) if not gpg else gpg_entry(other, data, hdr)
        return k.hex, e
    if state == "empty_dict":
        return k.hex, rng.choice([{}, {"sig": "ab" * 64}, {"other_headers": "04001608"}, {"signature": None}, {"signature": 5}])
    valid = raw_entry(k, data) if not gpg else gpg_entry(k, data, hdr)
    if state == "scalar_plus_order":
        # the classic second encoding of a valid signature: its scalar half plus the group order (RFC 8032 demands S < L: not a valid signature)
        L_ = 2 ** 252 + 27742317777372353535851937790883648493
        sb = bytes.fromhex(valid["signature"])
        s2 = int.from_bytes(sb[32:], "little") + L_
        if s2 < 2 ** 256:
            valid["signature"] = (sb[:32] + s2.to_bytes(32, "little")).hex()
        else:
            valid["signature"] = (sb[:32] + (s2 - L_ ^ 1).to_bytes(32, "little")).hex()      # (cannot be encoded: an ordinary corruption instead)
        return k.hex, valid
    if state == "bitflip":
        s = valid["signature"]
        i = rng.randrange(len(s))
        c = "%x" % (int(s[i], 16) ^ (1 << rng.randrange(4)))
        valid["signature"] = s[:i] + c + s[i + 1:]
        return k.hex, valid
    if state == "truncated":
        valid["signature"] = valid["signature"][:-2]
        return k.hex, valid
    if state == "upper_sig":
        s = valid["signature"]
        if s.upper() == s:
            s = "a" + s[1:]
        valid["signature"] = s.upper()
        return k.hex, valid
    if state == "extra_field":
        valid["extra"] = "x"
        return k.hex, valid
    if state == "bare_sig_string":      # the signature value itself where an entry (a dict) belongs
        return k.hex, valid["signature"]
    if state == "sig_in_list":
        return k.hex, [valid]
    if state == "nonascii_value":       # printable non-ASCII where a diagnostic may echo it: the verdict must not depend on what stdout can encode
        return k.hex, rng.choice(["s\u00efgnature \u2603", {"signature": "\u00fc" * 128}, {"signature": "\u00e9"}, ["\u2603"], {"signature": valid["signature"][:-1] + "\u00e9"},
                                  {"other_headers": "\u00e9\u00e9", "signature": valid["signature"]}])
    if state == "nondict":
        return k.hex, rng.choice([valid["signature"], [valid], None, 1, True, 1.5, [valid["signature"]]])
    if state == "alt_upper":
        kk = k.hex.upper()
        if kk == k.hex:
            return None
        return kk, valid
    if state == "alt_mixed_case":
        kk = mixed_case(k.hex)
        if kk == k.hex:
            return None
        return kk, valid
    if state == "alt_space":
        return rng.choice([" " + k.hex, k.hex + " ", k.hex + "\n", "\t" + k.hex]), valid
    if state == "alt_0x":
        return "0x" + k.hex, valid
    if state == "alt_inner_space":
        return k.hex[:2] + " " + k.hex[2:], valid
    if state == "alt_nonascii_digit":
        tr = {"0": "０", "1": "١", "2": "２", "3": "٣"}
        kk = "".join(tr.get(c, c) for c in k.hex)
        if kk == k.hex:
            return None
        return kk, valid
    if state == "gpg_bad_header":
        e = gpg_entry(k, data, hdr)
        h = bytearray(hdr)
        h[rng.randrange(len(h))] ^= 1 << rng.randrange(8)
        e["other_headers"] = bytes(h).hex()
        return k.hex, e
    if state == "gpg_bad_see_also":
        return k.hex, gpg_entry(k, data, hdr, rng.choice(["F075DD2F6F4CB3BD76134BBB81B6CA16EF9CD589", "f075", 5, None, ""]))
    if state == "gpg_empty_header":
        e = gpg_entry(k, data, b"")
        return k.hex, e
    if state == "zero_sig":
        return k.hex, {"signature": "00" * 64} if not gpg else {"other_headers": hdr.hex(), "signature": "00" * 64}
    raise ValueError(state)


def mixed_case(h: str) -> str:
    """a spelling with at least one upper-case and one lower-case hex letter (when the string has two letters)"""
    out, flip = [], True
    for c in h:
        if c in "abcdef":
            out.append(c.upper() if flip else c)
            flip = not flip
        else:
            out.append(c)
    return "".join(out)


def alt_spellings(h: str) -> list:
    return [mixed_case(h), h.upper(), " " + h, h + "\n", "0x" + h, h[:32] + " " + h[32:]]


NONSTR_INDEXES = [7, 0, None, (1, 2), 1.5, True, b"ab" * 32, frozenset(), -1]


def junk_entry(rng):
    """arbitrary key -> arbitrary value, as an attacker may add to the unsigned signature map"""
    if rng.random() < 0.12:
        # an in-memory signature map can be indexed by something that is not a string at all (never by a JSON file): such an entry is filed under
        # no key and is ignored like any other junk — its value is well formed, so that even the strictest envelope check has nothing to say.
        # (The model's objects are indexed by strings: proto.enc shows it such an index as a string that is no key.)
        return rng.choice(NONSTR_INDEXES), rng.choice([{"signature": "ab" * 64}, {"other_headers": "04001608", "signature": "cd" * 64}])
    k = rand_str(rng, maxlen=6, wf=True)
    if rng.random() < 0.3:
        k = rng.choice(["é", "\ud800", "\udfff", "junk", "", "ab" * 32, "zz" * 32, "0" * 63, "0" * 65, "Ab" * 32])
    v = rng.choice([
        "x", None, 1, [], {}, {"signature": "x"}, {"signature": "ab" * 64}, {"signature": "ab" * 64, "x": 1},
        {"other_headers": "zz", "signature": "ab" * 64}, {"signature": "é"}, {"signature": "\ud800"}, "\udc00é",
        {"other_headers": "00", "signature": "00" * 64},
    ])
    return k, v


# ---------------------------------------------------------------- delegating metadata

ORDER_RNG = None       # set per check run (framework.Check): member order of built metadata is then permuted now and then — it is no part of the value


def _order(d: dict, p: float = 0.3) -> dict:
    r = ORDER_RNG
    if r is None or r.random() >= p:
        return d
    items = list(d.items())
    r.shuffle(items)
    return dict(items)


def delegation(keys: list[Key], threshold) -> dict:
    return _order({"pubkeys": [k.hex for k in keys], "threshold": threshold}, 0.4)


def delegating_md(typ: str, delegations: dict, version=1, timestamp="2020-07-13T05:46:45Z",
                  expiration="2031-07-13T05:46:45Z", spec="0.6.0") -> dict:
    md = {"type": typ, "metadata_spec_version": spec, "delegations": delegations, "expiration": expiration}
    if timestamp is not None:
        md["timestamp"] = timestamp
    if version is not None:
        md["version"] = version
    return _order(md)


ROOT_TIMES = [("2020-07-13T05:46:45Z", "2031-07-13T05:46:45Z"), ("2019-01-01T00:00:00Z", "2030-01-01T00:00:00Z"), ("2025-06-30T00:00:00Z", "2026-06-30T00:00:00Z"),
              ("1999-12-31T23:59:59Z", "2000-01-01T00:00:00Z"), (None, "2031-07-13T05:46:45Z"), ("2020-07-13T05:46:45Z", "2020-07-13T05:46:45Z"), ("2030-01-01T00:00:00Z", "2021-01-01T00:00:00Z")]


def root_md(root_keys: list[Key], root_thr, km_keys: list[Key], km_thr, version=1, extra: dict | None = None) -> dict:
    dels = {"root": delegation(root_keys, root_thr), "key_mgr": delegation(km_keys, km_thr)}
    if extra:
        dels.update(extra)
    # what a root says about *when* it was made or expires plays no part in any verdict (the library does not compare times): successors dated before their
    # predecessors, without a timestamp, already expired, expiring before they were made — all as acceptable as any other
    r = ORDER_RNG
    if r is not None and r.random() < 0.35:
        ts, ex = r.choice(ROOT_TIMES)
        return delegating_md("root", dels, version, timestamp=ts, expiration=ex)
    return delegating_md("root", dels, version)


def envelope(signed, entries: dict | None = None) -> dict:
    return _order({"signatures": dict(entries or {}), "signed": signed})


def sign_env(env: dict, signers: list[Key], gpg: bool, rng=None) -> dict:
    data = oracle_bytes(env["signed"])
    for k in signers:
        if gpg:
            hdr = GPG_HDR_TYPICAL if rng is None or rng.random() < 0.5 else rand_hdr(rng)
            env["signatures"][k.hex] = gpg_entry(k, data, hdr)
        else:
            env["signatures"][k.hex] = raw_entry(k, data)
    return env
