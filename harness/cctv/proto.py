"""Line protocol shared with lean/Driver.lean: value encoding / decoding, driver process management.

The transport encoding is deliberately not JSON (the JSON model is under test).  See Driver.lean.
"""
from __future__ import annotations

import datetime
import math
import os
import subprocess
import tempfile
import types
from concurrent.futures import ThreadPoolExecutor

VERIF = os.path.dirname(os.path.dirname(os.path.dirname(os.path.abspath(__file__))))
DRIVER = os.path.join(VERIF, "lean", ".lake", "build", "bin", "driver")


class Opaque:
    """a Python object outside the JSON universe, identified by a small tag"""

    def __init__(self, tag: int):
        self.tag = tag

    def make(self):
        import decimal

        if 12 <= self.tag < 12 + len(FOREIGN_KEY_OBJECTS):
            return FOREIGN_KEY_OBJECTS[self.tag - 12]()
        return [
            object(), set(), 1j, (lambda: 0), frozenset({1}), math, range(3), decimal.Decimal(1),
            type, Ellipsis, NotImplemented, memoryview(b"ab"),
        ][self.tag % 12]

    def __repr__(self):
        return f"Opaque({self.tag})"


def _foreign_key_objects():
    """objects that *look like* keys without being ed25519 keys (tags 12..): keys of other algorithms from the same crypto library, and stand-ins that
    merely offer the same methods.  For the model they are opaque objects like any other: not a key."""
    from cryptography.hazmat.primitives.asymmetric import ec, ed448, x25519

    class Duck:
        def __init__(self, private):
            self.private = private
        def sign(self, data): return b"\x00" * 64
        def verify(self, sig, data): return None
        def public_key(self): return Duck(False)
        def private_bytes(self, *a, **k): return b"\x01" * 32
        def public_bytes(self, *a, **k): return b"\x02" * 32
        def private_bytes_raw(self): return b"\x01" * 32
        def public_bytes_raw(self): return b"\x02" * 32

    return [lambda: ed448.Ed448PrivateKey.generate(), lambda: ed448.Ed448PrivateKey.generate().public_key(),
            lambda: x25519.X25519PrivateKey.generate(), lambda: x25519.X25519PrivateKey.generate().public_key(),
            lambda: ec.generate_private_key(ec.SECP256R1()), lambda: ec.generate_private_key(ec.SECP256R1()).public_key(),
            lambda: Duck(True), lambda: Duck(False)]


FOREIGN_KEY_OBJECTS = _foreign_key_objects()
FOREIGN_KEY_TAGS = list(range(12, 12 + len(FOREIGN_KEY_OBJECTS)))


class KeyObj:
    """a key object (public or private) by raw bytes; materialised by the implementation runner"""

    def __init__(self, private: bool, raw: bytes):
        self.private = private
        self.raw = raw

    def __repr__(self):
        return ("P" if self.private else "K") + self.raw.hex()


def codes(s: str) -> str:
    return ",".join(str(ord(c)) for c in s)


def float_tok(x: float) -> str:
    return repr(x)


def enc(v, top: bool = True) -> str:
    """Python value -> protocol tokens (single string, space separated).  A tuple is a distinct kind only as a whole
    argument; nested inside a container it is written as the array the value model represents it by."""
    if v is None:
        return "n"
    if v is True:
        return "t"
    if v is False:
        return "f"
    if isinstance(v, int):
        try:
            return "i" + str(v)
        except ValueError:
            import sys

            old = sys.get_int_max_str_digits()
            sys.set_int_max_str_digits(0)
            try:
                return "i" + str(v)
            finally:
                sys.set_int_max_str_digits(old)
    if isinstance(v, float):
        return "d" + codes(float_tok(v))
    if isinstance(v, str):
        return "s" + codes(v)
    if isinstance(v, list):
        return "[ " + "".join(enc(x, False) + " " for x in v) + "]"
    if isinstance(v, dict):
        out = ["{ "]
        for k, x in v.items():
            if not isinstance(k, str):
                # the model's objects are indexed by strings; an in-memory dict indexed by anything else is shown to it as the same dict with
                # that index replaced by a string that no validator takes for a key (only generated for unsigned signature maps, where the
                # library treats every index that is not a hex key alike)
                k = "\x00index:" + type(k).__name__ + ":" + repr(k)
            out.append("s" + codes(k) + " " + enc(x, False) + " ")
        out.append("}")
        return "".join(out)
    if isinstance(v, tuple):
        if not top:
            return "[ " + "".join(enc(x, False) + " " for x in v) + "]"
        return "( " + "".join(enc(x, False) + " " for x in v) + ")"
    if isinstance(v, bytes):
        return "b" + v.hex()
    if isinstance(v, bytearray):
        return "B" + bytes(v).hex()
    if isinstance(v, KeyObj):
        return ("P" if v.private else "K") + v.raw.hex()
    if isinstance(v, datetime.timedelta):
        return "D" + str(int(v.total_seconds()))
    if isinstance(v, Opaque):
        return "O" + str(v.tag)
    raise TypeError(f"cannot encode {type(v)}")


def has_huge_int(v, _lim=10 ** 4300) -> bool:
    """an integer anywhere in the value that CPython's int -> str conversion refuses (more than 4300 digits)"""
    if isinstance(v, bool):
        return False
    if isinstance(v, int):
        return abs(v) >= _lim
    if isinstance(v, dict):
        return any(has_huge_int(x) for x in v.values())
    if isinstance(v, (list, tuple)):
        return any(has_huge_int(x) for x in v)
    return False


def label(k) -> str:
    """a printable, total label for a dict index (indexes of in-memory signature maps need not be strings)"""
    try:
        return enc(k)
    except Exception:  # noqa: BLE001
        return "<" + type(k).__name__ + ":" + repr(k)[:60] + ">"


def _codes_to_str(s: str) -> str:
    if not s:
        return ""
    return "".join(chr(int(t)) for t in s.split(","))


def dec_tokens(toks: list[str], i: int = 0):
    """decode one value starting at toks[i]; returns (value, next index)"""
    t = toks[i]
    if t == "n":
        return None, i + 1
    if t == "t":
        return True, i + 1
    if t == "f":
        return False, i + 1
    if t == "[":
        out = []
        i += 1
        while toks[i] != "]":
            v, i = dec_tokens(toks, i)
            out.append(v)
        return out, i + 1
    if t == "(":
        out = []
        i += 1
        while toks[i] != ")":
            v, i = dec_tokens(toks, i)
            out.append(v)
        return tuple(out), i + 1
    if t == "{":
        d = {}
        i += 1
        while toks[i] != "}":
            k = _codes_to_str(toks[i][1:])
            v, i = dec_tokens(toks, i + 1)
            d[k] = v
        return d, i + 1
    c, rest = t[0], t[1:]
    if c == "i":
        import sys

        old = sys.get_int_max_str_digits()
        sys.set_int_max_str_digits(0)
        try:
            return int(rest), i + 1
        finally:
            sys.set_int_max_str_digits(old)
    if c == "d":
        return float(_codes_to_str(rest)), i + 1
    if c == "s":
        return _codes_to_str(rest), i + 1
    if c == "b":
        return bytes.fromhex(rest), i + 1
    if c == "B":
        return bytearray(bytes.fromhex(rest)), i + 1
    if c in "KP":
        return KeyObj(c == "P", bytes.fromhex(rest)), i + 1
    if c == "D":
        return datetime.timedelta(seconds=int(rest)), i + 1
    if c == "O":
        return Opaque(int(rest)), i + 1
    raise ValueError(f"cannot decode token {t!r}")


def dec(s: str):
    v, i = dec_tokens(s.split(" "))
    return v


def deep_equal(a, b) -> bool:
    """type-exact structural equality; dicts order-insensitive; NaN == NaN; -0.0 != 0.0; tuple == list
    (the value model has no tuples)"""
    if isinstance(a, tuple):
        a = list(a)
    if isinstance(b, tuple):
        b = list(b)
    if type(a) is not type(b):
        return False
    if isinstance(a, float):
        return repr(a) == repr(b)
    if isinstance(a, list):
        return len(a) == len(b) and all(deep_equal(x, y) for x, y in zip(a, b))
    if isinstance(a, dict):
        return a.keys() == b.keys() and all(deep_equal(a[k], b[k]) for k in a)
    return a == b


class Driver:
    """runs the compiled Lean driver over batches of request lines"""

    def __init__(self, workers: int = 16):
        self.workers = workers
        if not os.path.exists(DRIVER):
            raise RuntimeError("driver not built: run `cd /verif/lean && lake build`")

    def _run_chunk(self, lines: list[str]) -> list[str]:
        if not lines:
            return []
        data = ("\n".join(lines) + "\n").encode("ascii")
        p = subprocess.run([DRIVER], input=data, stdout=subprocess.PIPE, stderr=subprocess.PIPE)
        if p.returncode != 0:
            raise RuntimeError(f"driver failed rc={p.returncode}: {p.stderr[-2000:]!r}")
        out = p.stdout.decode("ascii").split("\n")
        if out and out[-1] == "":
            out.pop()
        if len(out) != len(lines):
            raise RuntimeError(f"driver answered {len(out)} lines for {len(lines)} requests")
        return out

    _persistent = None

    def ask(self, lines: list[str]) -> list[str]:
        """small batches through one long-lived driver process (keeps the signature memo warm, no process start-up per call)"""
        if Driver._persistent is None or Driver._persistent.poll() is not None:
            Driver._persistent = subprocess.Popen([DRIVER], stdin=subprocess.PIPE, stdout=subprocess.PIPE, stderr=subprocess.DEVNULL)
            import atexit

            atexit.register(lambda p=Driver._persistent: (p.stdin.close(), p.wait(timeout=5)) if p.poll() is None else None)
        p = Driver._persistent
        out = []
        for ln in lines:
            p.stdin.write(ln.encode("ascii") + b"\n")
            p.stdin.flush()
            ans = p.stdout.readline()
            if not ans:
                raise RuntimeError("driver died on: " + ln[:200])
            out.append(ans.decode("ascii").rstrip("\n"))
        return out

    def run(self, lines: list[str], groups: list[int] | None = None) -> list[str]:
        """answers in request order.  `groups[i]` (optional) keeps related requests in one process so the
        driver's signature memo is shared."""
        n = len(lines)
        if n == 0:
            return []
        if n <= 4:
            return self.ask(lines)
        w = max(1, min(self.workers, n // 8 or 1))
        if groups is None:
            bounds = [(n * k // w, n * (k + 1) // w) for k in range(w)]
        else:
            bounds, start = [], 0
            target = max(1, n // w)
            i = 0
            while i < n:
                j = min(n, i + target)
                while j < n and groups[j] == groups[j - 1]:
                    j += 1
                bounds.append((i, j))
                i = j
        with ThreadPoolExecutor(max_workers=self.workers) as ex:
            parts = list(ex.map(lambda b: self._run_chunk(lines[b[0]:b[1]]), bounds))
        return [x for p in parts for x in p]


def dec_line(line: str):
    """protocol request line -> (op, args) for the ops whose arguments are plain values; None for the others"""
    toks = line.split(" ")
    op = toks[0]
    if op in ("check", "is"):
        v, _ = dec_tokens(toks, 2)
        return op, [toks[1], v]
    if op == "parse":
        return op, [bytes.fromhex(toks[1])]
    if op in ("ser", "vsig", "vgpg", "vsignable", "vdeleg", "vroot", "wrap", "sign", "signrepofile"):
        args, i = [], 1
        while i < len(toks):
            v, i = dec_tokens(toks, i)
            args.append(v)
        return op, args
    return None
