"""Loaded by CLI subprocesses the harness starts with this directory on PYTHONPATH: stands in for the optional dependency
securesystemslib (absent from this sandbox) with a signer whose outputs the harness fixed for the run (CCTV_GPG_CANNED = JSON
{"oh": .., "sg": .., "q": ..}; a null = that call raises ValueError).  Without the variable nothing is installed."""
import json
import os
import sys
import types

if os.environ.get("COVERAGE_PROCESS_START"):      # tools/impl_coverage.sh: measure library coverage inside the CLI subprocesses too
    try:
        import coverage
        coverage.process_startup()
    except Exception:
        pass

_c = os.environ.get("CCTV_GPG_CANNED")
if _c:
    _v = json.loads(_c)

    def create_signature(content, keyid=None, homedir=None):
        if _v.get("interrupt"):
            raise KeyboardInterrupt()          # the operator presses control-C at the passphrase prompt
        if not (isinstance(_v.get("oh"), str) and isinstance(_v.get("sg"), str)):
            raise ValueError("canned signer: no signature")
        return {"keyid": keyid, "other_headers": _v["oh"], "signature": _v["sg"]}

    def export_pubkey(keyid, homedir=None):
        if not isinstance(_v.get("q"), str):
            raise ValueError("canned signer: no such key")
        return {"type": "eddsa", "method": "pgp+eddsa-ed25519", "hashes": ["pgp+SHA2"], "keyid": keyid, "keyval": {"private": "", "public": {"q": _v["q"]}}}

    pkg = types.ModuleType("securesystemslib")
    pkg.__path__ = []
    fmts = types.ModuleType("securesystemslib.formats")
    g = types.ModuleType("securesystemslib.gpg")
    g.__path__ = []
    f = types.ModuleType("securesystemslib.gpg.functions")
    f.create_signature, f.export_pubkey = create_signature, export_pubkey
    pkg.formats, pkg.gpg, g.functions = fmts, g, f
    sys.modules.update({"securesystemslib": pkg, "securesystemslib.formats": fmts, "securesystemslib.gpg": g, "securesystemslib.gpg.functions": f})
